// C07 — weak topological orderings: all digraphs with <= n nodes x entry x
// successor orders, as real crab::cfg objects (and call graphs), checked
// against well-formedness predicates computed from scratch.
#include "common/proto.hpp"
#include "common/crabdefs.hpp"

#include <crab/cfg/cfg_bgl.hpp>
#include <crab/cg/cg_bgl.hpp>
#include <crab/fixpoint/wto.hpp>

#include <algorithm>
#include <memory>

using namespace crab;
using namespace crab::cfg_impl;
using namespace ikos;

struct Graph {
  int n;
  std::vector<std::vector<int>> succ; // in insertion order
};

static std::string gshow(const Graph &g, int entry) {
  std::string s = "n=" + std::to_string(g.n) + " entry=" + std::to_string(entry) + " ";
  for (int u = 0; u < g.n; u++) {
    s += std::to_string(u) + "->[";
    for (size_t k = 0; k < g.succ[u].size(); k++)
      s += (k ? "," : "") + std::to_string(g.succ[u][k]);
    s += "] ";
  }
  return s;
}

// flattened WTO: (node, list of enclosing heads outermost first; a head's own
// list excludes itself)
struct Flat {
  std::vector<int> order;
  std::vector<std::vector<int>> enclosing; // per position
  std::vector<bool> is_head;
};

template <typename G, typename ToInt>
struct FlatVisitor : public wto_component_visitor<G> {
  Flat &f;
  ToInt toint;
  std::vector<int> stack;
  FlatVisitor(Flat &f_, ToInt t) : f(f_), toint(t) {}
  void visit(wto_vertex<G> &v) override {
    f.order.push_back(toint(v.node()));
    f.enclosing.push_back(stack);
    f.is_head.push_back(false);
  }
  void visit(wto_cycle<G> &c) override {
    int h = toint(c.head());
    f.order.push_back(h);
    f.enclosing.push_back(stack);
    f.is_head.push_back(true);
    stack.push_back(h);
    for (auto it = c.begin(); it != c.end(); ++it) it->accept(this);
    stack.pop_back();
  }
};

// returns empty string if fine, else the failing clause
static std::string check_wto(const Graph &g, int entry, const Flat &f,
                             const std::vector<std::vector<int>> &nest,
                             const std::vector<bool> &nest_found) {
  int n = g.n;
  // reachability
  std::vector<bool> reach(n, false);
  std::vector<int> st = {entry};
  reach[entry] = true;
  while (!st.empty()) {
    int u = st.back();
    st.pop_back();
    for (int v : g.succ[u])
      if (!reach[v]) {
        reach[v] = true;
        st.push_back(v);
      }
  }
  std::vector<int> pos(n, -1);
  for (size_t i = 0; i < f.order.size(); i++) {
    int u = f.order[i];
    if (u < 0 || u >= n) return "unknown-node";
    if (pos[u] != -1) return "node-twice";
    pos[u] = (int)i;
  }
  for (int u = 0; u < n; u++) {
    if (reach[u] && pos[u] == -1) return "reachable-node-missing";
    if (!reach[u] && pos[u] != -1) return "unreachable-node-present";
  }
  // every enclosing head is itself a head positioned before the node
  for (size_t i = 0; i < f.order.size(); i++)
    for (int h : f.enclosing[i]) {
      if (pos[h] < 0 || pos[h] >= (int)i || !f.is_head[pos[h]]) return "nesting-shape";
    }
  // edges
  for (int u = 0; u < n; u++) {
    if (!reach[u]) continue;
    for (int v : g.succ[u]) {
      if (pos[u] < pos[v]) continue;
      // v must be the head of a component containing u
      bool ok = f.is_head[pos[v]];
      if (ok) {
        if (u == v)
          ok = true;
        else {
          const std::vector<int> &enc = f.enclosing[pos[u]];
          ok = std::find(enc.begin(), enc.end(), v) != enc.end();
        }
      }
      if (!ok) return "edge-order";
    }
  }
  // nesting(n) as reported by the API
  for (int u = 0; u < n; u++) {
    if (!reach[u]) continue;
    if (!nest_found[u]) return "nesting-missing";
    if (nest[u] != f.enclosing[pos[u]]) return "nesting-wrong";
  }
  return "";
}

// ---- CFG instance
static std::string lbl(int i) { return "b" + std::to_string(i); }
static int unlbl(const std::string &s) { return atoi(s.c_str() + 1); }

static bool run_cfg(const Graph &g, int entry, const std::string &spec, bool explicit_entry) {
  z_cfg_t cfg(lbl(0));
  for (int i = 0; i < g.n; i++) cfg.insert(lbl(i));
  for (int u = 0; u < g.n; u++)
    for (int v : g.succ[u]) cfg.get_node(lbl(u)) >> cfg.get_node(lbl(v));
  z_cfg_ref_t ref(cfg);
  typedef wto<z_cfg_ref_t> wto_t;
  std::unique_ptr<wto_t> w;
  try {
    if (explicit_entry)
      w.reset(new wto_t(ref, lbl(entry)));
    else
      w.reset(new wto_t(ref));
  } catch (crab::verif::crab_error &e) {
    vp::viol("wto.cfg:abort", spec, gshow(g, entry) + " aborts: " + e.what());
    return false;
  }
  Flat f;
  auto toint = [](const std::string &s) { return unlbl(s); };
  FlatVisitor<z_cfg_ref_t, decltype(toint)> vis(f, toint);
  w->accept(&vis);
  std::vector<std::vector<int>> nest(g.n);
  std::vector<bool> found(g.n, false);
  for (int u = 0; u < g.n; u++) {
    auto nn = w->nesting(lbl(u));
    if (nn) {
      found[u] = true;
      for (auto it = nn->begin(); it != nn->end(); ++it) nest[u].push_back(unlbl(*it));
    }
  }
  std::string r = check_wto(g, entry, f, nest, found);
  vp::stat("evaluations");
  vp::stat("transitions", (long long)f.order.size());
  if (!r.empty()) {
    crab::crab_string_os os;
    os << *w;
    vp::viol("wto.cfg:" + r, spec, gshow(g, entry) + " wto=" + os.str());
    return false;
  }
  if (vp::want_sample() && g.n >= 4 && f.order.size() == 4 && f.is_head[1]) {
    crab::crab_string_os os;
    os << *w;
    vp::sample(gshow(g, entry) + " wto=" + os.str());
  }
  return true;
}

// ---- call-graph instance: function i calls successors in order
static bool run_cg(const Graph &g, const std::string &spec) {
  variable_factory_t vfac;
  std::vector<std::unique_ptr<z_cfg_t>> cfgs;
  std::vector<z_cfg_ref_t> refs;
  for (int i = 0; i < g.n; i++) {
    z_var in(vfac["i" + std::to_string(i)], crab::INT_TYPE, 32);
    z_var out(vfac["o" + std::to_string(i)], crab::INT_TYPE, 32);
    std::vector<z_var> ins, outs;
    if (i != 0) {
      ins.push_back(in);
      outs.push_back(out);
    }
    crab::cfg::function_decl<z_number, varname_t> decl(i == 0 ? "main" : "f" + std::to_string(i), ins, outs);
    std::unique_ptr<z_cfg_t> c(new z_cfg_t("entry", "exit", decl));
    z_basic_block_t &en = c->insert("entry");
    z_basic_block_t &ex = c->insert("exit");
    en >> ex;
    z_var t(vfac["t" + std::to_string(i)], crab::INT_TYPE, 32);
    z_var r(vfac["r" + std::to_string(i)], crab::INT_TYPE, 32);
    en.assign(t, z_number(0));
    int k = 0;
    for (int v : g.succ[i]) {
      if (v == 0) continue; // nobody calls main
      z_var rk(vfac["r" + std::to_string(i) + "_" + std::to_string(k++)], crab::INT_TYPE, 32);
      en.callsite("f" + std::to_string(v), {rk}, {t});
    }
    if (i != 0) ex.assign(out, z_number(1));
    cfgs.push_back(std::move(c));
  }
  for (auto &c : cfgs) refs.push_back(z_cfg_ref_t(*c));
  typedef cg_impl::z_cg_t cg_t;
  typedef cg_impl::z_cg_ref_t cg_ref_t;
  try {
    cg_t cg(refs);
    cg_ref_t cgref(cg);
    // locate the node of main
    boost::optional<typename cg_t::node_t> mainn;
    for (auto v : boost::make_iterator_range(vertices(cg)))
      if (v.name() == "main") mainn = v;
    if (!mainn) {
      vp::viol("wto.cg:no-main", spec, gshow(g, 0));
      return false;
    }
    wto<cg_ref_t> w(cgref, *mainn);
    Flat f;
    auto toint = [](const typename cg_t::node_t &nd) {
      std::string s = nd.name();
      return s == "main" ? 0 : atoi(s.c_str() + 1);
    };
    FlatVisitor<cg_ref_t, decltype(toint)> vis(f, toint);
    w.accept(&vis);
    std::vector<std::vector<int>> nest(g.n);
    std::vector<bool> found(g.n, false);
    for (auto v : boost::make_iterator_range(vertices(cg))) {
      int u = toint(v);
      auto nn = w.nesting(v);
      if (nn) {
        found[u] = true;
        for (auto it = nn->begin(); it != nn->end(); ++it) nest[u].push_back(toint(*it));
      }
    }
    Graph h = g; // edges into main do not exist in the call graph
    for (auto &s : h.succ) s.erase(std::remove(s.begin(), s.end(), 0), s.end());
    std::string r = check_wto(h, 0, f, nest, found);
    vp::stat("evaluations");
    vp::stat("transitions", (long long)f.order.size());
    if (!r.empty()) {
      crab::crab_string_os os;
      os << w;
      vp::viol("wto.cg:" + r, spec, gshow(h, 0) + " wto=" + os.str());
      return false;
    }
  } catch (crab::verif::crab_error &e) {
    vp::viol("wto.cg:abort", spec, gshow(g, 0) + " aborts: " + e.what());
    return false;
  }
  return true;
}

static Graph decode(int n, uint64_t bits) {
  Graph g;
  g.n = n;
  g.succ.assign(n, {});
  for (int u = 0; u < n; u++)
    for (int v = 0; v < n; v++)
      if ((bits >> (u * n + v)) & 1) g.succ[u].push_back(v);
  return g;
}

// order variant k of graph g: 0 canonical, 1 reversed, 2 rotate-left-by-1;
// "perm:<idx>" variants enumerate all permutation products (n<=3)
static void apply_variant(Graph &g, int k) {
  for (auto &s : g.succ) {
    if (k == 1) std::reverse(s.begin(), s.end());
    if (k == 2 && s.size() > 1) std::rotate(s.begin(), s.begin() + 1, s.end());
  }
}

static void run_case(int n, uint64_t bits, int variant, long long permidx,
                     std::set<uint64_t> &nontriv, bool docg) {
  Graph g = decode(n, bits);
  if (permidx >= 0) {
    // mixed-radix index over per-node permutations
    long long idx = permidx;
    for (auto &s : g.succ) {
      std::sort(s.begin(), s.end());
      long long f = 1;
      for (size_t i = 2; i <= s.size(); i++) f *= i;
      long long k = idx % f;
      idx /= f;
      for (long long j = 0; j < k; j++) std::next_permutation(s.begin(), s.end());
    }
  } else
    apply_variant(g, variant);
  std::string spec = "g:" + std::to_string(n) + ":" + std::to_string(bits) + ":" +
                     std::to_string(variant) + ":" + std::to_string(permidx);
  vp::set_case(spec);
  bool cyc = false;
  for (int e = 0; e < n; e++) {
    bool ok = run_cfg(g, e, spec + ":e" + std::to_string(e), e != 0);
    (void)ok;
  }
  if (docg) run_cg(g, spec + ":cg");
  // non-trivial: at least one cycle through >= 2 nodes reachable from 0
  for (int u = 0; u < n && !cyc; u++)
    for (int v : g.succ[u])
      if (v != u && std::find(g.succ[v].begin(), g.succ[v].end(), u) != g.succ[v].end()) cyc = true;
  if (cyc) nontriv.insert(vp::fnv(spec));
  vp::stat("states"); // one (graph, successor order) case
}

int main(int argc, char **argv) {
  vp::parse_args(argc, argv);
  vp::install_crash_handler();
  crab::CrabEnableWarningMsg(false);
  std::set<uint64_t> nontriv;
  if (!vp::args().replay.empty()) {
    auto f = vp::split(vp::args().replay, ':');
    run_case(atoi(f[1].c_str()), strtoull(f[2].c_str(), 0, 10), atoi(f[3].c_str()),
             atoll(f[4].c_str()), nontriv, true);
    vp::finish();
    return 0;
  }
  uint64_t caseno = 0;
  // n <= 3: every graph x every product of successor permutations
  for (int n = 1; n <= 3; n++)
    for (uint64_t bits = 0; bits < (1ULL << (n * n)); bits++) {
      Graph g = decode(n, bits);
      long long total = 1;
      for (auto &s : g.succ) {
        long long f = 1;
        for (size_t i = 2; i <= s.size(); i++) f *= i;
        total *= f;
      }
      for (long long p = 0; p < total; p++) {
        if (!vp::mine(caseno++)) continue;
        run_case(n, bits, 0, p, nontriv, true);
      }
    }
  // n = 4: every graph x {canonical, reversed, rotated}; call graphs too
  for (uint64_t bits = 0; bits < (1ULL << 16); bits++)
    for (int k = 0; k < 3; k++) {
      if (!vp::mine(caseno++)) continue;
      run_case(4, bits, k, -1, nontriv, k == 0);
    }
  // n = 5 (thorough): every graph x {canonical, reversed}
  if (vp::args().thorough()) {
    bool cut = false;
    for (uint64_t bits = 0; bits < (1ULL << 25) && !cut; bits++)
      for (int k = 0; k < 2; k++) {
        if (!vp::mine(caseno++)) continue;
        run_case(5, bits, k, -1, nontriv, false);
        static uint64_t mine_count = 0;
        if ((++mine_count & 0xfff) == 0 && vp::past_deadline()) {
          vp::incomplete("n=5 graphs cut at bits=" + std::to_string(bits));
          cut = true;
          break;
        }
      }
  }
  vp::stat("distinct_nontrivial", nontriv.size());
  vp::finish();
  return 0;
}
