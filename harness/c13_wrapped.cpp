// C13 — fixed-width integers (wrapint) and wrapped intervals.
//
// wrapint: widths 1..6 all operand pairs, widths 1..64 boundary alphabet pairs,
// every operation compared with arithmetic modulo 2^w in unsigned __int128.
// wrapped_interval: widths 1..W every (start,end) + top + bottom, all pairs x all
// operators; every bit-vector result of members must be a member of the result.
#include "common/proto.hpp"

#include <crab/domains/wrapped_interval.hpp>
#include <crab/fixpoint/thresholds.hpp>
#include <crab/numbers/wrapint.hpp>
#include <crab/support/debug.hpp>

using namespace crab;
typedef unsigned __int128 u128;
typedef __int128 i128;
typedef unsigned long long ull;

static u128 MOD(unsigned w) { return ((u128)1) << w; }
static ull mask(unsigned w) { return w == 64 ? ~0ULL : ((1ULL << w) - 1); }
static i128 sgn(ull v, unsigned w) { // signed reading
  if ((v >> (w - 1)) & 1) return (i128)v - (i128)MOD(w);
  return (i128)v;
}
static ull wrap(i128 v, unsigned w) {
  i128 m = (i128)MOD(w);
  i128 r = v % m;
  if (r < 0) r += m;
  return (ull)r;
}
static std::string u2s(ull v) { return std::to_string(v); }

struct WOp {
  const char *name;
  // returns false when the concrete operation is undefined for the operands
  bool (*conc)(ull a, ull b, unsigned w, ull &res);
  wrapint (*abs)(wrapint a, wrapint b);
};

static bool c_add(ull a, ull b, unsigned w, ull &r) { r = wrap((i128)a + (i128)b, w); return true; }
static bool c_sub(ull a, ull b, unsigned w, ull &r) { r = wrap((i128)a - (i128)b, w); return true; }
static bool c_mul(ull a, ull b, unsigned w, ull &r) { r = (ull)(((u128)a * (u128)b) % MOD(w)); return true; }
static bool c_sdiv(ull a, ull b, unsigned w, ull &r) {
  if (b == 0) return false;
  i128 x = sgn(a, w), y = sgn(b, w);
  if (x == -(i128)(MOD(w) >> 1) && y == -1) return false; // overflow: undefined
  r = wrap(x / y, w);
  return true;
}
static bool c_udiv(ull a, ull b, unsigned w, ull &r) { if (b == 0) return false; r = a / b; return true; }
static bool c_srem(ull a, ull b, unsigned w, ull &r) {
  if (b == 0) return false;
  i128 x = sgn(a, w), y = sgn(b, w);
  if (x == -(i128)(MOD(w) >> 1) && y == -1) return false;
  r = wrap(x % y, w);
  return true;
}
static bool c_urem(ull a, ull b, unsigned w, ull &r) { if (b == 0) return false; r = a % b; return true; }
static bool c_and(ull a, ull b, unsigned w, ull &r) { r = a & b; return true; }
static bool c_or(ull a, ull b, unsigned w, ull &r) { r = a | b; return true; }
static bool c_xor(ull a, ull b, unsigned w, ull &r) { r = a ^ b; return true; }
static bool c_shl(ull a, ull b, unsigned w, ull &r) { if (b >= w) return false; r = (ull)(((u128)a << b) % MOD(w)); return true; }
static bool c_lshr(ull a, ull b, unsigned w, ull &r) { if (b >= w) return false; r = a >> b; return true; }
static bool c_ashr(ull a, ull b, unsigned w, ull &r) {
  if (b >= w) return false;
  i128 x = sgn(a, w);
  i128 d = ((i128)1) << b;
  i128 q = x / d;
  if ((x % d) != 0 && x < 0) q -= 1; // floor
  r = wrap(q, w);
  return true;
}

static std::vector<WOp> wops() {
  return {
      {"+", c_add, [](wrapint a, wrapint b) { return a + b; }},
      {"-", c_sub, [](wrapint a, wrapint b) { return a - b; }},
      {"*", c_mul, [](wrapint a, wrapint b) { return a * b; }},
      {"+=", c_add, [](wrapint a, wrapint b) { a += b; return a; }},
      {"-=", c_sub, [](wrapint a, wrapint b) { a -= b; return a; }},
      {"*=", c_mul, [](wrapint a, wrapint b) { a *= b; return a; }},
      {"/", c_sdiv, [](wrapint a, wrapint b) { return a / b; }},
      {"sdiv", c_sdiv, [](wrapint a, wrapint b) { return a.sdiv(b); }},
      {"udiv", c_udiv, [](wrapint a, wrapint b) { return a.udiv(b); }},
      {"%", c_srem, [](wrapint a, wrapint b) { return a % b; }},
      {"srem", c_srem, [](wrapint a, wrapint b) { return a.srem(b); }},
      {"urem", c_urem, [](wrapint a, wrapint b) { return a.urem(b); }},
      {"&", c_and, [](wrapint a, wrapint b) { return a & b; }},
      {"|", c_or, [](wrapint a, wrapint b) { return a | b; }},
      {"^", c_xor, [](wrapint a, wrapint b) { return a ^ b; }},
      {"<<", c_shl, [](wrapint a, wrapint b) { return a << b; }},
      {"lshr", c_lshr, [](wrapint a, wrapint b) { return a.lshr(b); }},
      {"ashr", c_ashr, [](wrapint a, wrapint b) { return a.ashr(b); }},
  };
}

// A result is well formed when it has the right width, is reduced, and keeps
// behaving as a w-bit number in follow-up operations (two-step histories: a
// stale cached modulus or width only shows in the next operation).
static bool wellformed(const wrapint &r, unsigned w) {
  if (!(r.get_bitwidth() == w && (w == 64 || r.get_uint64_t() < (1ULL << w)))) return false;
  ull v = r.get_uint64_t();
  wrapint one(1, w), three(3 & mask(w), w);
  if ((r + one).get_uint64_t() != wrap((i128)v + 1, w)) return false;
  if ((one + r).get_uint64_t() != wrap((i128)v + 1, w)) return false;
  if ((r - one).get_uint64_t() != wrap((i128)v - 1, w)) return false;
  if ((r * three).get_uint64_t() != (ull)(((u128)v * (u128)(3 & mask(w))) % MOD(w))) return false;
  if ((-r).get_uint64_t() != wrap(-(i128)v, w)) return false;
  if (w > 1 && (r << one).get_uint64_t() != (ull)(((u128)v << 1) % MOD(w))) return false;
  wrapint t(r);
  t += one;
  if (t.get_uint64_t() != wrap((i128)v + 1, w)) return false;
  wrapint u(r);
  ++u;
  if (u.get_uint64_t() != wrap((i128)v + 1, w)) return false;
  return true;
}

static void wrapint_pair(unsigned w, ull a, ull b, const std::vector<WOp> &ops,
                         const std::string &spec) {
  wrapint x(a, w), y(b, w);
  for (auto &op : ops) {
    ull exp;
    if (!op.conc(a, b, w, exp)) continue;
    vp::stat("evaluations");
    try {
      wrapint r = op.abs(x, y);
      if (!wellformed(r, w) || r.get_uint64_t() != exp)
        vp::viol(std::string("wrapint.") + op.name + ":wrong", spec,
                 "w=" + std::to_string(w) + " " + u2s(a) + " " + op.name + " " + u2s(b) +
                     " = " + u2s(r.get_uint64_t()) + " (width " + std::to_string(r.get_bitwidth()) +
                     ") expected " + u2s(exp));
    } catch (crab::verif::crab_error &e) {
      vp::viol(std::string("wrapint.") + op.name + ":abort", spec,
               "w=" + std::to_string(w) + " " + u2s(a) + " " + op.name + " " + u2s(b) + " aborts: " + e.what());
    }
  }
  // comparisons are unsigned
  vp::stat("evaluations", 6);
  if ((x == y) != (a == b) || (x != y) != (a != b) || (x < y) != (a < b) ||
      (x <= y) != (a <= b) || (x > y) != (a > b) || (x >= y) != (a >= b))
    vp::viol("wrapint.cmp:wrong", spec, "w=" + std::to_string(w) + " " + u2s(a) + " , " + u2s(b));
}

static void wrapint_unary(unsigned w, ull a, const std::string &spec) {
  wrapint x(a, w);
  std::string ws = "w=" + std::to_string(w) + " " + u2s(a);
  try {
    vp::stat("evaluations", 12);
    if (!wellformed(x, w) || x.get_uint64_t() != (a & mask(w)))
      vp::viol("wrapint.ctor:wrong", spec, ws);
    if ((-x).get_uint64_t() != wrap(-(i128)a, w)) vp::viol("wrapint.neg:wrong", spec, ws);
    { wrapint t(x); ++t; if (t.get_uint64_t() != wrap((i128)a + 1, w)) vp::viol("wrapint.++:wrong", spec, ws); }
    { wrapint t(x); --t; if (t.get_uint64_t() != wrap((i128)a - 1, w)) vp::viol("wrapint.--:wrong", spec, ws); }
    { wrapint t(x); wrapint o = t++; if (o.get_uint64_t() != a || t.get_uint64_t() != wrap((i128)a + 1, w)) vp::viol("wrapint.post++:wrong", spec, ws); }
    { wrapint t(x); wrapint o = t--; if (o.get_uint64_t() != a || t.get_uint64_t() != wrap((i128)a - 1, w)) vp::viol("wrapint.post--:wrong", spec, ws); }
    if (x.msb() != (bool)((a >> (w - 1)) & 1)) vp::viol("wrapint.msb:wrong", spec, ws);
    if (x.is_zero() != (a == 0)) vp::viol("wrapint.is_zero:wrong", spec, ws);
    // big-integer conversions
    ikos::z_number ub = x.get_unsigned_bignum(), sb = x.get_signed_bignum();
    if (ub.get_str() != u2s(a)) vp::viol("wrapint.get_unsigned_bignum:wrong", spec, ws + " -> " + ub.get_str());
    {
      i128 s = sgn(a, w);
      std::string exp = s < 0 ? "-" + u2s((ull)(-s)) : u2s((ull)s);
      if (sb.get_str() != exp) vp::viol("wrapint.get_signed_bignum:wrong", spec, ws + " -> " + sb.get_str());
      if (x.get_signed_str() != exp) vp::viol("wrapint.get_signed_str:wrong", spec, ws + " -> " + x.get_signed_str());
      if (x.get_unsigned_str() != u2s(a)) vp::viol("wrapint.get_unsigned_str:wrong", spec, ws);
      // from big integers (precondition: fits_wrapint)
      if (wrapint::fits_wrapint(sb, w)) {
        wrapint t(sb, w);
        if (!wellformed(t, w) || t.get_uint64_t() != a) vp::viol("wrapint.from_signed_bignum:wrong", spec, ws);
      }
      if (wrapint::fits_wrapint(ub, w)) {
        wrapint t(ub, w);
        if (!wellformed(t, w) || t.get_uint64_t() != a) vp::viol("wrapint.from_unsigned_bignum:wrong", spec, ws);
      }
      // a value congruent modulo 2^w (w < 62): a + 2^w and a - 2^w
      if (w < 62) {
        ikos::z_number m = ikos::z_number(1) << ikos::z_number((long)w);
        wrapint t1(ub + m, w), t2(ub - m, w);
        if (t1.get_uint64_t() != a || t2.get_uint64_t() != a) vp::viol("wrapint.from_bignum_mod:wrong", spec, ws);
      }
      wrapint t(u2s(a), w);
      if (t.get_uint64_t() != a) vp::viol("wrapint.from_string:wrong", spec, ws);
    }
    // extensions / truncation
    for (unsigned k : {1u, 2u, 7u, 31u}) {
      if (w + k > 64) continue;
      vp::stat("evaluations", 2);
      wrapint z = x.zext(k), s = x.sext(k);
      if (!wellformed(z, w + k) || z.get_uint64_t() != a)
        vp::viol("wrapint.zext:wrong", spec, ws + " zext " + std::to_string(k) + " = " + u2s(z.get_uint64_t()));
      if (!wellformed(s, w + k) || s.get_uint64_t() != wrap(sgn(a, w), w + k))
        vp::viol("wrapint.sext:wrong", spec, ws + " sext " + std::to_string(k) + " = " + u2s(s.get_uint64_t()));
    }
    for (unsigned k : {1u, 2u, 3u, 8u, 31u, 32u, 63u}) {
      if (k >= w) continue;
      vp::stat("evaluations");
      wrapint t = x.keep_lower(k);
      if (!wellformed(t, k) || t.get_uint64_t() != (a & mask(k)))
        vp::viol("wrapint.keep_lower:wrong", spec, ws + " keep_lower " + std::to_string(k) + " = " + u2s(t.get_uint64_t()));
    }
    // limits
    if (wrapint::get_signed_max(w).get_uint64_t() != (mask(w) >> 1) ||
        wrapint::get_signed_min(w).get_uint64_t() != (1ULL << (w - 1)) ||
        wrapint::get_unsigned_max(w).get_uint64_t() != mask(w) ||
        wrapint::get_unsigned_min(w).get_uint64_t() != 0)
      vp::viol("wrapint.limits:wrong", spec, ws);
  } catch (crab::verif::crab_error &e) {
    vp::viol("wrapint.unary:abort", spec, ws + " aborts: " + e.what());
  }
}

static void do_wrapint(uint64_t &caseno, std::set<uint64_t> &nontriv) {
  auto ops = wops();
  unsigned full = vp::args().thorough() ? 7 : 5;
  for (unsigned w = 1; w <= full; w++) {
    ull n = 1ULL << w;
    for (ull a = 0; a < n; a++) {
      uint64_t idx = caseno++;
      std::string spec = "wi:" + std::to_string(w) + ":" + u2s(a);
      if (!vp::args().replay.empty()) {
        if (vp::args().replay != spec) continue;
      } else if (!vp::mine(idx))
        continue;
      vp::set_case(spec);
      wrapint_unary(w, a, spec);
      for (ull b = 0; b < n; b++) {
        wrapint_pair(w, a, b, ops, spec);
        if (a > 1 && b > 1) nontriv.insert(vp::fnv(spec + ":" + u2s(b)));
      }
    }
  }
  for (unsigned w = 1; w <= 64; w++) {
    std::set<ull> A;
    ull m = mask(w);
    for (ull v : {0ULL, 1ULL, 2ULL, 3ULL, (m >> 1), (m >> 1) + 1, (m >> 1) + 2, m - 1, m,
                  0x5555555555555555ULL & m, 0xAAAAAAAAAAAAAAAAULL & m, (ull)w - 1, (ull)w})
      A.insert(v & m);
    for (ull a : A) {
      uint64_t idx = caseno++;
      std::string spec = "wb:" + std::to_string(w) + ":" + u2s(a);
      if (!vp::args().replay.empty()) {
        if (vp::args().replay != spec) continue;
      } else if (!vp::mine(idx))
        continue;
      vp::set_case(spec);
      wrapint_unary(w, a, spec);
      for (ull b : A) {
        wrapint_pair(w, a, b, ops, spec);
        nontriv.insert(vp::fnv(spec + ":" + u2s(b)));
      }
      if (vp::want_sample() && w == 13)
        vp::sample("wrapint w=13 a=" + u2s(a) + " x all boundary b x 18 ops");
    }
  }
}

// ============================ wrapped intervals ============================
typedef domains::wrapped_interval<ikos::z_number> wi_t;

struct WV {
  wi_t v;
  std::string name;
  std::vector<ull> mem;
};

static bool wi_mem(const wi_t &i, ull v, unsigned w) {
  if (i.is_bottom()) return false;
  if (i.is_top()) return true;
  ull s = i.start().get_uint64_t(), e = i.end().get_uint64_t();
  if (i.start().get_bitwidth() != w) return false;
  return ((v - s) & mask(w)) <= ((e - s) & mask(w));
}
static std::string wshow(const wi_t &i) {
  crab::crab_string_os os;
  os << i;
  return os.str();
}

struct IOp {
  const char *name;
  bool (*conc)(ull a, ull b, unsigned w, ull &res);
  wi_t (*abs)(const wi_t &a, const wi_t &b);
};

static void do_wrapped_interval(uint64_t &caseno, std::set<uint64_t> &nontriv) {
  std::vector<IOp> ops = {
      {"+", c_add, [](const wi_t &a, const wi_t &b) { return a + b; }},
      {"-", c_sub, [](const wi_t &a, const wi_t &b) { return a - b; }},
      {"*", c_mul, [](const wi_t &a, const wi_t &b) { return a * b; }},
      {"SDiv", c_sdiv, [](const wi_t &a, const wi_t &b) { return a.SDiv(b); }},
      {"UDiv", c_udiv, [](const wi_t &a, const wi_t &b) { return a.UDiv(b); }},
      {"SRem", c_srem, [](const wi_t &a, const wi_t &b) { return a.SRem(b); }},
      {"URem", c_urem, [](const wi_t &a, const wi_t &b) { return a.URem(b); }},
      {"And", c_and, [](const wi_t &a, const wi_t &b) { return a.And(b); }},
      {"Or", c_or, [](const wi_t &a, const wi_t &b) { return a.Or(b); }},
      {"Xor", c_xor, [](const wi_t &a, const wi_t &b) { return a.Xor(b); }},
      {"Shl", c_shl, [](const wi_t &a, const wi_t &b) { return a.Shl(b); }},
      {"LShr", c_lshr, [](const wi_t &a, const wi_t &b) { return a.LShr(b); }},
      {"AShr", c_ashr, [](const wi_t &a, const wi_t &b) { return a.AShr(b); }},
  };
  unsigned W = vp::args().thorough() ? 5 : 4;
  for (unsigned w = 1; w <= W; w++) {
    ull n = 1ULL << w;
    std::vector<WV> vals;
    vals.push_back({wi_t::bottom(), "_|_", {}});
    vals.push_back({wi_t::top(), "top", {}});
    for (ull s = 0; s < n; s++)
      for (ull e = 0; e < n; e++) {
        if (((e - s) & mask(w)) == mask(w)) continue; // that is top
        vals.push_back({wi_t(wrapint(s, w), wrapint(e, w)),
                        "(" + u2s(s) + "," + u2s(e) + ")/" + std::to_string(w), {}});
      }
    for (auto &v : vals)
      for (ull x = 0; x < n; x++)
        if (wi_mem(v.v, x, w)) v.mem.push_back(x);
    for (size_t i = 0; i < vals.size(); i++) {
      uint64_t idx = caseno++;
      std::string spec = "wint:" + std::to_string(w) + ":" + std::to_string(i);
      if (!vp::args().replay.empty()) {
        if (vp::args().replay != spec) continue;
      } else if (!vp::mine(idx))
        continue;
      vp::set_case(spec);
      const wi_t &a = vals[i].v;
      try {
        // membership query and unary operations
        for (ull x = 0; x < n; x++) {
          vp::stat("evaluations");
          if (!a.is_top() && !a.is_bottom() && a.at(wrapint(x, w)) != wi_mem(a, x, w))
            vp::viol("wrapped_interval.at:wrong", spec, vals[i].name + " at " + u2s(x));
        }
        {
          wi_t ng = -a;
          vp::stat("evaluations");
          for (ull x : vals[i].mem)
            if (!wi_mem(ng, wrap(-(i128)x, w), w))
              vp::viol("wrapped_interval.neg:unsound", spec, vals[i].name + " -> " + wshow(ng) + " misses -" + u2s(x));
          ikos::interval<ikos::z_number> iv = a.to_interval();
          for (ull x : vals[i].mem) {
            i128 s = sgn(x, w);
            if (!iv[ikos::z_number((long)s)])
              vp::viol("wrapped_interval.to_interval:unsound", spec, vals[i].name + " misses signed value of " + u2s(x));
          }
          if (a.is_singleton() != (vals[i].mem.size() == 1 && !a.is_top()))
            vp::viol("wrapped_interval.is_singleton:wrong", spec, vals[i].name);
          for (int sg = 0; sg < 2; sg++) {
            wi_t lo = a.lower_half_line(sg), hi = a.upper_half_line(sg);
            vp::stat("evaluations", 2);
            for (ull x : vals[i].mem)
              for (ull y = 0; y < n; y++) {
                bool le = sg ? (sgn(y, w) <= sgn(x, w)) : (y <= x);
                bool ge = sg ? (sgn(y, w) >= sgn(x, w)) : (y >= x);
                if (le && !wi_mem(lo, y, w))
                  vp::viol("wrapped_interval.lower_half_line:unsound", spec, vals[i].name + (sg ? " signed" : " unsigned") + " -> " + wshow(lo) + " misses " + u2s(y));
                if (ge && !wi_mem(hi, y, w))
                  vp::viol("wrapped_interval.upper_half_line:unsound", spec, vals[i].name + (sg ? " signed" : " unsigned") + " -> " + wshow(hi) + " misses " + u2s(y));
              }
          }
          // casts
          for (unsigned k = 1; k <= 2; k++) {
            if (a.is_bottom() || a.is_top()) break;
            wi_t z = a.ZExt(k), s = a.SExt(k);
            vp::stat("evaluations", 2);
            // two-step history: the cast result must keep behaving as a (w+k)-bit interval
            wi_t zp = z + wi_t(wrapint(mask(w), w + k)), sp = s * wi_t(wrapint(3, w + k));
            for (ull x : vals[i].mem) {
              if (!wi_mem(zp, wrap((i128)x + (i128)mask(w), w + k), w + k))
                vp::viol("wrapped_interval.ZExt;+:unsound", spec, vals[i].name + " zext " + std::to_string(k) + " then + " + u2s(mask(w)) + " -> " + wshow(zp));
              if (!wi_mem(sp, wrap(sgn(x, w) * 3, w + k), w + k))
                vp::viol("wrapped_interval.SExt;*:unsound", spec, vals[i].name + " sext " + std::to_string(k) + " then * 3 -> " + wshow(sp));
              if (!wi_mem(z, x, w + k))
                vp::viol("wrapped_interval.ZExt:unsound", spec, vals[i].name + " zext " + std::to_string(k) + " -> " + wshow(z) + " misses " + u2s(x));
              if (!wi_mem(s, wrap(sgn(x, w), w + k), w + k))
                vp::viol("wrapped_interval.SExt:unsound", spec, vals[i].name + " sext " + std::to_string(k) + " -> " + wshow(s) + " misses " + u2s(wrap(sgn(x, w), w + k)));
            }
          }
          for (unsigned k = 1; k < w; k++) {
            if (a.is_bottom() || a.is_top()) break;
            wi_t t = a.Trunc(k);
            vp::stat("evaluations");
            for (ull x : vals[i].mem)
              if (!wi_mem(t, x & mask(k), k))
                vp::viol("wrapped_interval.Trunc:unsound", spec, vals[i].name + " trunc " + std::to_string(k) + " -> " + wshow(t) + " misses " + u2s(x & mask(k)));
          }
        }
      } catch (crab::verif::crab_error &e) {
        vp::viol("wrapped_interval.unary:abort", spec, vals[i].name + " aborts: " + e.what());
      }
      for (size_t j = 0; j < vals.size(); j++) {
        const wi_t &b = vals[j].v;
        std::string ab = vals[i].name + " , " + vals[j].name;
        if (i > 1 && j > 1) nontriv.insert(vp::fnv(spec + ":" + std::to_string(j)));
        for (auto &op : ops) {
          // the abstract operation is only obliged to answer when some
          // member pair has a defined concrete result
          bool defined = false;
          for (ull x : vals[i].mem) {
            for (ull y : vals[j].mem) {
              ull c;
              if (op.conc(x, y, w, c)) { defined = true; break; }
            }
            if (defined) break;
          }
          if (!defined && !(vals[i].mem.empty() || vals[j].mem.empty())) continue;
          vp::stat("evaluations");
          try {
            wi_t r = op.abs(a, b);
            bool bad = false;
            for (ull x : vals[i].mem) {
              for (ull y : vals[j].mem) {
                ull c;
                if (!op.conc(x, y, w, c)) continue;
                vp::stat("member_checks");
                if (!wi_mem(r, c, w)) {
                  vp::viol(std::string("wrapped_interval.") + op.name + ":unsound", spec,
                           ab + " " + op.name + " = " + wshow(r) + " misses " + u2s(x) + " op " + u2s(y) + " = " + u2s(c));
                  bad = true;
                  break;
                }
              }
              if (bad) break;
            }
          } catch (crab::verif::crab_error &e) {
            vp::viol(std::string("wrapped_interval.") + op.name + ":abort", spec, ab + " aborts: " + e.what());
          }
        }
        // lattice
        try {
          wi_t jn = a | b, mt = a & b, wd = a || b;
          bool le = a <= b;
          crab::thresholds<ikos::z_number> ts(10);
          ts.add(ikos::bound<ikos::z_number>(ikos::z_number(2)));
          wi_t wt = a.widening_thresholds(b, ts);
          vp::stat("evaluations", 5);
          for (ull x = 0; x < n; x++) {
            bool ina = wi_mem(a, x, w), inb = wi_mem(b, x, w);
            if ((ina || inb) && !wi_mem(jn, x, w))
              vp::viol("wrapped_interval.join:unsound", spec, ab + " = " + wshow(jn) + " misses " + u2s(x));
            if ((ina || inb) && !wi_mem(wd, x, w))
              vp::viol("wrapped_interval.widening:unsound", spec, ab + " = " + wshow(wd) + " misses " + u2s(x));
            if ((ina || inb) && !wi_mem(wt, x, w))
              vp::viol("wrapped_interval.widening_thresholds:unsound", spec, ab + " = " + wshow(wt) + " misses " + u2s(x));
            if (ina && inb && !wi_mem(mt, x, w))
              vp::viol("wrapped_interval.meet:unsound", spec, ab + " = " + wshow(mt) + " misses " + u2s(x));
            if (le && ina && !inb)
              vp::viol("wrapped_interval.leq:unsound", spec, ab + " yes but " + u2s(x) + " only on the left");
          }
          if (i == j && !le) vp::viol("wrapped_interval.leq:irreflexive", spec, ab);
          if (a.is_bottom() && !le) vp::viol("wrapped_interval.leq:bottom-left", spec, ab);
          if (!b.is_bottom() && b.is_top() && !le) vp::viol("wrapped_interval.leq:top-right", spec, ab);
          if (b <= a) {
            wi_t nr = a && b;
            vp::stat("evaluations");
            for (ull x = 0; x < n; x++)
              if (wi_mem(b, x, w) && !wi_mem(nr, x, w))
                vp::viol("wrapped_interval.narrowing:unsound", spec, ab + " = " + wshow(nr) + " misses " + u2s(x));
          }
          // trim: values of a different from some value of b
          wi_t tr = ikos::linear_interval_solver_impl::trim_interval(a, b);
          vp::stat("evaluations");
          for (ull x : vals[i].mem) {
            bool differs = false;
            for (ull y : vals[j].mem) differs = differs || (x != y);
            if (differs && !wi_mem(tr, x, w))
              vp::viol("wrapped_interval.trim:unsound", spec, ab + " = " + wshow(tr) + " misses " + u2s(x));
          }
        } catch (crab::verif::crab_error &e) {
          vp::viol("wrapped_interval.lattice:abort", spec, ab + " aborts: " + e.what());
        }
      }
      if (vp::want_sample() && w == 3 && i == 17)
        vp::sample("wrapped_interval " + vals[i].name + " x all " + std::to_string(vals.size()) + " intervals of width 3 x 13 ops + lattice");
    }
  }
}

int main(int argc, char **argv) {
  vp::parse_args(argc, argv);
  vp::install_crash_handler();
  crab::CrabEnableWarningMsg(false);
  uint64_t caseno = 0;
  std::set<uint64_t> nontriv;
  std::string part = vp::args().opt.count("part") ? vp::args().opt["part"] : "";
  if (!vp::args().replay.empty())
    part = vp::args().replay.rfind("wint", 0) == 0 ? "wrapped_interval" : "wrapint";
  if (part.empty() || part == "wrapint") do_wrapint(caseno, nontriv);
  if (part.empty() || part == "wrapped_interval") do_wrapped_interval(caseno, nontriv);
  vp::stat("distinct_nontrivial", nontriv.size());
  vp::finish();
  return 0;
}
