// E3 — operation-history explorer over real abstract-domain values (DomBox).
// Serves C03 (soundness under histories), C04 (inclusion / lattice laws),
// C16 (value semantics, representation independence, wrappers) and the chain
// part of C05. Stateless DFS over ALL operation sequences up to a depth; every
// explored history runs on the implementation.
#include "common/histops.hpp"

#include <fnmatch.h>
#include <fstream>
#include <map>
#include <stdexcept>

using namespace vb;
using namespace vh;

namespace {

struct Reg {
  std::unique_ptr<DomBox> box;
  WSet W;
  Reg() {}
  Reg(const Reg &o) : box(o.box ? o.box->clone() : nullptr), W(o.W) {}
  Reg &operator=(const Reg &o) {
    box = o.box ? o.box->clone() : nullptr;
    W = o.W;
    return *this;
  }
};
struct Node {
  Reg r[2];
  bool w_used = false;
};

std::string PROP;
bool M_C03 = false, M_C04 = false, M_C16 = false, M_C05 = false;
const DomEntry *DOM = nullptr;
std::string DOMNAME, CFGNAME, FLAVOR = "direct";
std::vector<HOp> ALPHA;
WSet UNIVERSE;
long long n_nodes = 0, n_ops = 0, n_member = 0, n_bottom = 0, n_unsupported = 0, n_pairs = 0, n_leq_yes = 0;
std::set<uint64_t> distinct_prints;

struct Unsupported {
  std::string dom, op, msg;
};
std::vector<Unsupported> UNSUP;

void load_unsupported() {
  std::ifstream f("/verif/known_unsupported.tsv");
  std::string line;
  while (std::getline(f, line)) {
    if (line.empty() || line[0] == '#') continue;
    auto p = vp::split(line, '\t');
    if (p.size() >= 3) UNSUP.push_back({p[0], p[1], p[2]});
  }
}
bool is_unsupported(const std::string &opname, const std::string &msg) {
  for (auto &u : UNSUP)
    if (fnmatch(u.dom.c_str(), DOMNAME.c_str(), 0) == 0 && fnmatch(u.op.c_str(), opname.c_str(), 0) == 0 &&
        msg.find(u.msg) != std::string::npos)
      return true;
  return false;
}

std::string hist_str(const std::vector<int> &path) {
  std::string s;
  for (int p : path) s += ALPHA[p].op.name + "; ";
  return s;
}
std::string spec_of(const std::vector<int> &path) {
  std::string s = "h|" + DOMNAME + "|" + CFGNAME + "|" + FLAVOR + "|";
  for (size_t i = 0; i < path.size(); i++) s += (i ? "." : "") + std::to_string(path[i]);
  return s;
}
std::string wstr(const Val &v, bool w_used) {
  std::string s = "{x=" + std::to_string(v.v[VX]) + ",y=" + std::to_string(v.v[VY]) + ",z=" + std::to_string(v.v[VZ]);
  if (w_used) s += ",w=" + std::to_string(v.v[VW]);
  if (DOM->caps & CAP_BOOL) s += ",b1=" + std::to_string(v.v[VB1]) + ",b2=" + std::to_string(v.v[VB2]) + ",b3=" + std::to_string(v.v[VB3]);
  return s + "}";
}

void report(const std::string &clause, const std::vector<int> &path, const std::string &detail) {
  std::string last = path.empty() ? "init" : ALPHA[path.back()].op.name;
  vp::viol(DOMNAME + ":" + last + ":" + clause, spec_of(path),
           "[" + DOMNAME + " " + CFGNAME + " " + FLAVOR + "] " + hist_str(path) + " => " + detail);
}

std::vector<int> tracked_vars(bool w_used) {
  std::vector<int> vs = {VX, VY, VZ};
  if (w_used) vs.push_back(VW);
  if (DOM->caps & CAP_BOOL) {
    vs.push_back(VB1);
    vs.push_back(VB2);
    vs.push_back(VB3);
  }
  return vs;
}

const std::vector<LinCst> &queries() {
  static std::vector<LinCst> q = {
      cst({{1, VX}}, 0, C_LEQ),          cst({{-1, VX}}, 0, C_LEQ),          cst({{1, VX}, {-1, VY}}, 0, C_LEQ),
      cst({{1, VY}, {-1, VX}}, 0, C_LEQ), cst({{1, VX}, {-1, VY}}, 0, C_EQ), cst({{1, VX}}, -1, C_DISEQ),
      cst({{1, VX}, {1, VY}}, 0, C_LEQ),  cst({{1, VY}}, -1, C_LT),
  };
  return q;
}

// sigma in gamma(a)?  returns the failing clause or "".
std::string member_clause(DomBox &a, const Val &s, bool w_used, const Queries *cached, std::string &extra) {
  const Queries &q = *cached;
  if (q.is_bottom) return "M4:is_bottom-with-witness";
  for (auto &c : q.csts)
    if (!c.big && !c.holds(s.v.data())) { extra = "exported constraint " + c.str(); return "M1:exported-constraint-false"; }
  if (q.dfalse) return "M2:disjunctive-system-false";
  if (!q.dcsts.empty()) {
    bool any = false;
    for (auto &conj : q.dcsts) {
      bool all = true;
      for (auto &c : conj)
        if (!c.big && !c.holds(s.v.data())) { all = false; break; }
      if (all) { any = true; break; }
    }
    if (!any) return "M2:no-disjunct-holds";
  }
  std::vector<int> vs = tracked_vars(w_used);
  for (size_t i = 0; i < vs.size(); i++)
    if (!q.at[i].contains(s.v[vs[i]])) { extra = std::string("at(") + var_name(vs[i]) + ")=" + q.at[i].str(); return "M3:interval-misses-value"; }
  return "";
}

Queries observe(const DomBox &a, bool w_used) {
  Queries q;
  q.is_bottom = a.is_bottom();
  q.is_top = a.is_top();
  for (int v : tracked_vars(w_used)) q.at.push_back(a.at(v));
  q.csts = a.csts();
  try {
    a.dcsts(q.dcsts, q.dfalse);
  } catch (std::runtime_error &e) {
    // the disjunctive export is optional: "not implemented" only disables clause M2
    if (!is_unsupported("to_disjunctive_linear_constraint_system", e.what())) throw;
    q.dcsts.clear();
    q.dfalse = false;
    n_unsupported++;
  }
  return q;
}

// What a value describes, observed behaviourally (C16's "meaning"): the set of
// box points sigma such that refining a copy with v == sigma(v) for every
// tracked variable is not bottom. Exported constraints are deliberately NOT
// used: several domains export lazily (e.g. the term domain only exports an
// equality once a query has materialised its term), which changes the export
// but not the described states.
std::string meaning(const DomBox &a, bool w_used) {
  if (a.is_bottom()) return "bottom";
  std::string bits;
  std::vector<int> vs = tracked_vars(w_used);
  for (auto &s : UNIVERSE) {
    std::unique_ptr<DomBox> c = a.clone();
    for (int v : vs) {
      if (v == VB1 || v == VB2 || v == VB3) {
        Op o;
        o.kind = O_BOOL_ASSUME;
        o.v0 = v;
        o.a = s.v[v] ? 0 : 1;
        c->apply(o, nullptr);
      } else {
        Op o;
        o.kind = O_ASSUME;
        o.c = cst({{1, v}}, -s.v[v], C_EQ);
        c->apply(o, nullptr);
      }
    }
    bits += c->is_bottom() ? '0' : '1';
  }
  return bits;
}

// Cheap observation used by the lock-step comparison of wrapper flavours: the
// same history with the same observation calls must export the same thing.
std::string export_fingerprint(const DomBox &a, bool w_used) {
  Queries q = observe(a, w_used);
  if (q.is_bottom) return "bottom";
  std::string bits;
  std::vector<int> vs = tracked_vars(w_used);
  for (auto &s : UNIVERSE) {
    bool in = true;
    for (auto &c : q.csts)
      if (!c.big && !c.holds(s.v.data())) { in = false; break; }
    for (size_t i = 0; in && i < vs.size(); i++)
      if (!q.at[i].contains(s.v[vs[i]])) in = false;
    bits += in ? '1' : '0';
  }
  for (auto &i : q.at) bits += i.str();
  return bits;
}

// full check of register g of node n after the history `path`
bool check_reg(Node &n, int g, const std::vector<int> &path) {
  Reg &r = n.r[g];
  Queries q;
  try {
    q = observe(*r.box, n.w_used);
  } catch (std::runtime_error &e) {
    if (is_unsupported("query", e.what())) { n_unsupported++; return false; }
    report("abort-in-query", path, e.what());
    return false;
  }
  if (q.is_bottom) n_bottom++;
  if (!M_C03) return true;
  bool ok = true;
  for (auto &s : r.W) {
    n_member++;
    std::string extra;
    std::string cl = member_clause(*r.box, s, n.w_used, &q, extra);
    if (!cl.empty()) {
      report(cl, path, "r" + std::to_string(g) + " = " + r.box->print() + " does not contain " + wstr(s, n.w_used) + " " + extra);
      ok = false;
      break;
    }
  }
  if (!ok || r.W.empty()) return ok;
  // M5: entailment answers
  try {
    for (auto &c : queries()) {
      if (!r.box->entails(c)) continue;
      for (auto &s : r.W)
        if (!c.holds(s.v.data())) {
          report("M5:entails-false-constraint", path, "r" + std::to_string(g) + " = " + r.box->print() + " entails " + c.str() + " but witness " + wstr(s, n.w_used));
          return false;
        }
    }
    // operator[] on a copy
    {
      std::unique_ptr<DomBox> c = r.box->clone();
      for (int v : {VX, VY, VZ}) {
        Itv i = c->at_mut(v);
        for (auto &s : r.W)
          if (!i.contains(s.v[v])) {
            report("M3:operator[]-misses-value", path, std::string("r[") + var_name(v) + "] = " + i.str() + " misses " + wstr(s, n.w_used));
            return false;
          }
      }
    }
    // M7: refining with v == sigma(v) keeps a described state (two witnesses)
    for (size_t wi : {(size_t)0, r.W.size() - 1}) {
      const Val &s = r.W[wi];
      std::unique_ptr<DomBox> c = r.box->clone();
      for (int v : {VX, VY, VZ}) {
        Op o;
        o.kind = O_ASSUME;
        o.c = cst({{1, v}}, -s.v[v], C_EQ);
        c->apply(o, nullptr);
      }
      if (c->is_bottom()) {
        report("M7:assume-of-described-state-is-bottom", path, "r" + std::to_string(g) + " = " + r.box->print() + " refined with " + wstr(s, n.w_used));
        return false;
      }
      if (wi == r.W.size() - 1) break;
    }
  } catch (std::runtime_error &e) {
    if (is_unsupported("query", e.what())) { n_unsupported++; return false; }
    report("abort-in-query", path, e.what());
    return false;
  }
  return true;
}

// C04 clauses on the two registers of a node
void check_lattice(Node &n, const std::vector<int> &path) {
  try {
    for (int g = 0; g < 2; g++) {
      DomBox &a = *n.r[g].box, &b = *n.r[1 - g].box;
      n_pairs++;
      if (!a.leq(a)) report("C04:leq-not-reflexive", path, "r" + std::to_string(g) + " = " + a.print());
      bool le = a.leq(b);
      if (a.is_bottom() && !le) report("C04:bottom-not-below", path, a.print() + " <= " + b.print());
      if (b.is_top() && !b.is_bottom() && !le) report("C04:not-below-top", path, a.print() + " <= " + b.print());
      if (le) {
        n_leq_yes++;
        Queries q = observe(b, n.w_used);
        for (auto &s : n.r[g].W) {
          std::string extra;
          std::string cl = member_clause(b, s, n.w_used, &q, extra);
          if (!cl.empty()) {
            report("C04:leq-yes-but-state-not-in-right:" + cl, path, a.print() + " <= " + b.print() + " answered yes; " + wstr(s, n.w_used) + " is described by the left only " + extra);
            break;
          }
        }
        // exported-constraint refutation: a point satisfying a's export and at() but not b's
        // (only meaningful when a's export is exact; used as a hint, never an alarm by itself)
      }
    }
    // make_top / make_bottom / set_to_*
    {
      std::unique_ptr<DomBox> t = n.r[0].box->clone(), b = n.r[0].box->clone(), t2 = n.r[0].box->clone(), b2 = n.r[0].box->clone();
      Op o;
      o.kind = O_MAKE_TOP; t->apply(o, nullptr);
      o.kind = O_MAKE_BOTTOM; b->apply(o, nullptr);
      o.kind = O_SET_TOP; t2->apply(o, nullptr);
      o.kind = O_SET_BOTTOM; b2->apply(o, nullptr);
      if (!t->is_top() || t->is_bottom()) report("C04:make_top-not-top", path, t->print());
      if (!t2->is_top() || t2->is_bottom()) report("C04:set_to_top-not-top", path, t2->print());
      if (!b->is_bottom()) report("C04:make_bottom-not-bottom", path, b->print());
      if (!b2->is_bottom()) report("C04:set_to_bottom-not-bottom", path, b2->print());
      if (!n.r[0].box->leq(*t)) report("C04:not-below-make_top", path, n.r[0].box->print());
      if (!b->leq(*n.r[0].box)) report("C04:make_bottom-not-below", path, n.r[0].box->print());
    }
  } catch (std::runtime_error &e) {
    if (is_unsupported("lattice", e.what())) { n_unsupported++; return; }
    report("abort-in-lattice-query", path, e.what());
  }
}

enum Status { ST_OK, ST_NA, ST_ABORT };

Status apply_op(const HOp &h, Node &n, const std::vector<int> &path) {
  if (h.disabled) return ST_NA;
  if (h.fresh_w && n.w_used) return ST_NA;
  if (h.engine) {
    if (h.engine_code == ENG_SWAP) {
      std::swap(n.r[0].box, n.r[1].box);
      std::swap(n.r[0].W, n.r[1].W);
    } else {
      n.r[1] = n.r[0];
    }
    return ST_OK;
  }
  const Op &op = h.op;
  if (op.kind == O_NARROW) {
    // narrowing is only specified for a decreasing pair
    bool dec;
    try {
      dec = n.r[1].box->leq(*n.r[0].box);
    } catch (std::runtime_error &e) {
      return ST_NA;
    }
    if (!dec) return ST_NA;
  }
  try {
    n.r[0].box->apply(op, n.r[1].box.get());
    n_ops++;
  } catch (std::runtime_error &e) {
    if (is_unsupported(op.name, e.what())) { n_unsupported++; return ST_ABORT; }
    report("abort", path, std::string("operation aborts: ") + e.what());
    return ST_ABORT;
  }
  // witnesses
  WSet &W0 = n.r[0].W;
  const WSet &W1 = n.r[1].W;
  switch (op.kind) {
  case O_JOIN: case O_JOIN_IP: case O_WIDEN: case O_WIDEN_T:
    W0.insert(W0.end(), W1.begin(), W1.end());
    normalize_wset(W0);
    break;
  case O_MEET: case O_MEET_IP: {
    WSet r;
    std::set_intersection(W0.begin(), W0.end(), W1.begin(), W1.end(), std::back_inserter(r));
    W0.swap(r);
    break;
  }
  case O_NARROW: case O_COPY_FROM:
    W0 = W1;
    break;
  case O_SET_TOP: case O_MAKE_TOP:
    W0 = UNIVERSE;
    break;
  case O_SET_BOTTOM: case O_MAKE_BOTTOM:
    W0.clear();
    break;
  default: {
    WSet r;
    std::vector<Val> out;
    for (auto &s : W0) {
      out.clear();
      concrete_step(op, s, out);
      r.insert(r.end(), out.begin(), out.end());
    }
    normalize_wset(r);
    W0.swap(r);
    if (op.kind == O_RENAME || op.kind == O_EXPAND) n.w_used = true;
  }
  }
  // a join of a w-using and a non-w-using value keeps w unconstrained: fine
  return ST_OK;
}

int MAXD = 3;

void dfs(Node &n, int depth, std::vector<int> &path, int first_lo, int first_hi) {
  if (depth == MAXD) return;
  std::string m0, m1;
  if (M_C16) {
    try {
      m0 = n.r[0].box->print() + "#" + meaning(*n.r[0].box, n.w_used);
      m1 = n.r[1].box->print() + "#" + meaning(*n.r[1].box, n.w_used);
    } catch (std::runtime_error &) {
      m0.clear();
    }
  }
  for (int oi = 0; oi < (int)ALPHA.size(); oi++) {
    if (depth == 0 && (oi < first_lo || oi >= first_hi)) continue;
    if (vp::past_deadline()) return;
    Node c = n; // value semantics: the child works on copies
    path.push_back(oi);
    vp::set_case(spec_of(path));
    Status st = apply_op(ALPHA[oi], c, path);
    if (st == ST_OK) {
      n_nodes++;
      bool ok = check_reg(c, 0, path);
      if (ok && ALPHA[oi].engine) ok = check_reg(c, 1, path);
      if (ok && M_C04) check_lattice(c, path);
      if (ok && M_C16) {
        // (ii) read-only queries / normalize / minimize never change the meaning
        int k = ALPHA[oi].op.kind;
        if (!ALPHA[oi].engine && (k == O_QUERY_ALL || k == O_NORMALIZE || k == O_MINIMIZE)) {
          try {
            std::string before = meaning(*n.r[0].box, n.w_used), after = meaning(*c.r[0].box, c.w_used);
            if (before != after)
              report("C16:query-changes-meaning", path, "before " + n.r[0].box->print() + " after " + c.r[0].box->print());
          } catch (std::runtime_error &) {
          }
        }
      }
      if (ok) {
        if (vp::want_sample() && depth == MAXD - 1 && !c.r[0].W.empty() && c.r[0].W.size() < UNIVERSE.size() / 2 && path[0] != path[1])
          vp::sample("[" + DOMNAME + " " + CFGNAME + "] " + hist_str(path) + " => " + c.r[0].box->print() + " with " + std::to_string(c.r[0].W.size()) + " witnesses");
        if (depth == MAXD - 1) distinct_prints.insert(vp::fnv(DOMNAME + c.r[0].box->print()));
        dfs(c, depth + 1, path, 0, 0);
      }
    }
    path.pop_back();
  }
  if (M_C16 && !m0.empty()) {
    // (i) no operation on a copy may change what the original describes
    try {
      std::string a0 = n.r[0].box->print() + "#" + meaning(*n.r[0].box, n.w_used);
      std::string a1 = n.r[1].box->print() + "#" + meaning(*n.r[1].box, n.w_used);
      if (a0 != m0 || a1 != m1)
        report("C16:parent-changed-by-operations-on-copies", path, "before " + (a0 != m0 ? m0 : m1) + " after " + (a0 != m0 ? a0 : a1));
    } catch (std::runtime_error &) {
    }
  }
}

bool REL4 = false; // four-variable phase: w ranges over the box and is tracked from the start
void init_universe() {
  UNIVERSE.clear();
  Val v;
  v.v.fill(0);
  bool b = (DOM->caps & CAP_BOOL) != 0;
  if (REL4) {
    for (long x = -2; x <= 2; x++)
      for (long y = -2; y <= 2; y++)
        for (long z = -2; z <= 2; z++)
          for (long w = -2; w <= 2; w++) {
            v.v[VX] = x; v.v[VY] = y; v.v[VZ] = z; v.v[VW] = w;
            UNIVERSE.push_back(v);
          }
    normalize_wset(UNIVERSE);
    return;
  }
  for (long x = -2; x <= 2; x++)
    for (long y = -2; y <= 2; y++)
      for (long z = -2; z <= 2; z++)
        for (long b1 = 0; b1 <= (b ? 1 : 0); b1++)
          for (long b2 = 0; b2 <= (b ? 1 : 0); b2++) {
            v.v[VX] = x; v.v[VY] = y; v.v[VZ] = z; v.v[VB1] = b1; v.v[VB2] = b2;
            UNIVERSE.push_back(v);
          }
  normalize_wset(UNIVERSE);
}

std::unique_ptr<DomBox> make_top() {
  if (FLAVOR == "wrapped") return DOM->make_top_wrapped();
  if (FLAVOR == "ref") return DOM->make_top_ref();
  return DOM->make_top();
}

Node initial_node() {
  Node n;
  n.r[0].box = make_top();
  n.r[1].box = make_top();
  n.r[0].W = UNIVERSE;
  n.r[1].W = UNIVERSE;
  n.w_used = REL4;
  return n;
}

// ---- C16 (iii): the three flavours in lock step ------------------------------
void lockstep(const std::vector<int> &path_prefix, int depth, Node &d, Node &w, Node &r, std::vector<int> &path) {
  if (depth == MAXD) return;
  for (int oi = 0; oi < (int)ALPHA.size(); oi++) {
    if (depth == 0 && !vp::mine(oi)) continue;
    if (vp::past_deadline()) return;
    Node cd = d, cw = w, cr = r;
    path.push_back(oi);
    vp::set_case(spec_of(path));
    FLAVOR = "direct";
    Status s1 = apply_op(ALPHA[oi], cd, path);
    FLAVOR = "wrapped";
    Status s2 = apply_op(ALPHA[oi], cw, path);
    FLAVOR = "ref";
    Status s3 = apply_op(ALPHA[oi], cr, path);
    FLAVOR = "lockstep";
    if (s1 != s2 || s1 != s3) {
      if (s1 == ST_OK || s2 == ST_OK || s3 == ST_OK)
        report("C16:wrapper-status-differs", path, "direct/wrapped/ref status " + std::to_string(s1) + std::to_string(s2) + std::to_string(s3));
    } else if (s1 == ST_OK) {
      n_nodes++;
      try {
        std::string a = export_fingerprint(*cd.r[0].box, cd.w_used), b = export_fingerprint(*cw.r[0].box, cw.w_used), c = export_fingerprint(*cr.r[0].box, cr.w_used);
        bool same_at = true;
        for (int v : {VX, VY, VZ})
          same_at = same_at && cd.r[0].box->at(v) == cw.r[0].box->at(v) && cd.r[0].box->at(v) == cr.r[0].box->at(v);
        if (a != b || a != c || !same_at || cd.r[0].box->is_bottom() != cw.r[0].box->is_bottom() || cd.r[0].box->is_bottom() != cr.r[0].box->is_bottom())
          report("C16:wrapper-describes-something-else", path, "direct " + cd.r[0].box->print() + " wrapped " + cw.r[0].box->print() + " ref " + cr.r[0].box->print());
        else
          lockstep(path_prefix, depth + 1, cd, cw, cr, path);
      } catch (std::runtime_error &e) {
        if (!is_unsupported("query", e.what())) report("abort-in-query", path, e.what());
      }
    }
    path.pop_back();
  }
}

// ---- C16 (iv): linear histories without any live copy -----------------------
// The DFS above works on copies of the parent node, so the copy-on-write wrapper never is the
// sole owner of its state. Here every history is replayed from scratch, in place, on one object
// per flavour: the only copies alive are those the history itself makes (r1:=r0).
bool linear_run(const std::vector<int> &path) {
  FLAVOR = "direct"; Node d = initial_node();
  FLAVOR = "wrapped"; Node w = initial_node();
  FLAVOR = "ref"; Node r = initial_node();
  std::vector<int> p;
  for (int oi : path) {
    p.push_back(oi);
    FLAVOR = "direct";
    Status s1 = apply_op(ALPHA[oi], d, p);
    FLAVOR = "wrapped";
    Status s2 = apply_op(ALPHA[oi], w, p);
    FLAVOR = "ref";
    Status s3 = apply_op(ALPHA[oi], r, p);
    FLAVOR = "linear";
    if (s1 != s2 || s1 != s3) {
      if (s1 == ST_OK || s2 == ST_OK || s3 == ST_OK)
        report("C16:wrapper-status-differs:linear", p, "direct/wrapped/ref status " + std::to_string(s1) + std::to_string(s2) + std::to_string(s3));
      return false;
    }
    if (s1 != ST_OK) return false;
    n_nodes++;
    try {
      bool same = d.r[0].box->is_bottom() == w.r[0].box->is_bottom() && d.r[0].box->is_bottom() == r.r[0].box->is_bottom();
      for (int v : {VX, VY, VZ})
        same = same && d.r[0].box->at(v) == w.r[0].box->at(v) && d.r[0].box->at(v) == r.r[0].box->at(v);
      // printed forms are compared only where they contain no internal (generated) names
      if (DOMNAME.rfind("term", 0) != 0)
        same = same && d.r[0].box->print() == w.r[0].box->print() && d.r[0].box->print() == r.r[0].box->print();
      if (!same) {
        report("C16:wrapper-describes-something-else:linear", p, "direct " + d.r[0].box->print() + " wrapped " + w.r[0].box->print() + " ref " + r.r[0].box->print());
        return false;
      }
    } catch (std::runtime_error &e) {
      if (!is_unsupported("query", e.what())) report("abort-in-query", p, e.what());
      return false;
    }
  }
  return true;
}
std::vector<int> linear_alphabet() {
  const char *names[] = {"x:=0", "x:=x+1", "y:=2", "y:=x", "assume(x<=0)", "assume(x>=1)", "forget(x)", "r0:=r0|r1", "r0:=r0||r1", "r1:=r0", "swap"};
  std::vector<int> sub;
  for (auto n : names)
    for (int i = 0; i < (int)ALPHA.size(); i++)
      if (ALPHA[i].op.name == n) { sub.push_back(i); break; }
  return sub;
}
void linear_all(int depth) {
  std::vector<int> sub = linear_alphabet();
  uint64_t total = 1;
  for (int i = 0; i < depth; i++) total *= sub.size();
  uint64_t mine_count = 0;
  for (uint64_t c = 0; c < total; c++) {
    if (!vp::mine(c)) continue;
    if ((++mine_count & 0xff) == 0 && vp::past_deadline()) { vp::incomplete(DOMNAME + " " + CFGNAME + " linear histories"); return; }
    std::vector<int> path;
    uint64_t t = c;
    for (int i = 0; i < depth; i++) { path.push_back(sub[t % sub.size()]); t /= sub.size(); }
    FLAVOR = "linear";
    vp::set_case(spec_of(path));
    linear_run(path);
  }
}

// ---- C04: all ordered pairs of a pool of reachable values ----------------
struct PoolVal {
  std::unique_ptr<DomBox> box;
  WSet W;
  bool w_used;
  std::vector<int> path;
};
void collect_pool(Node &n, int depth, int maxd, std::vector<int> &path, std::vector<PoolVal> &pool, std::set<std::string> &seen, size_t cap) {
  if (depth == maxd) return;
  for (int oi = 0; oi < (int)ALPHA.size(); oi++) {
    Node c = n;
    path.push_back(oi);
    // swallow aborts here: the DFS part reports them
    Status st = apply_op(ALPHA[oi], c, path);
    if (st == ST_OK) {
      std::string key;
      try {
        key = c.r[0].box->print() + "|" + std::to_string(c.r[0].W.size()) + "|" + (c.w_used ? "w" : "");
      } catch (std::runtime_error &) {
        path.pop_back();
        continue;
      }
      if (seen.insert(key).second && pool.size() < cap) {
        PoolVal p;
        p.box = c.r[0].box->clone();
        p.W = c.r[0].W;
        p.w_used = c.w_used;
        p.path = path;
        pool.push_back(std::move(p));
      }
      collect_pool(c, depth + 1, maxd, path, pool, seen, cap);
    }
    path.pop_back();
  }
}

// the second pool of the pairs mode: every state reached by at most two operations of a small alphabet with constants of both
// signs and every octagonal constraint shape (sums and differences, lower and upper bounds), so that the order and the lattice
// operations meet operands that have bounds but no relation, sum constraints with non-positive constants, etc.
std::vector<vh::HOp> octagonal_alphabet(unsigned caps) {
  static const char *names[] = {"x:=-1", "x:=1", "y:=-1", "y:=2", "assume(x+y<=1)", "assume(x+y>=-1)", "assume(x+y>=1)", "assume(x+y==0)",
                                "assume(x<=y)", "assume(x<y)", "assume(x>=0)", "assume(x<=0)", "assume(y<=0)", "assume(y>=-1)", "assume(y<=1)", "forget(y)"};
  std::vector<vh::HOp> all = vh::build_alphabet(caps, true), r;
  for (auto n : names)
    for (auto &h : all)
      if (h.op.name == n) r.push_back(h);
  return r;
}
std::string POOLTAG = "p";

void pool_pairs(std::vector<PoolVal> &pool) {
  for (size_t i = 0; i < pool.size(); i++) {
    if (!vp::mine(i)) continue;
    if (vp::past_deadline()) { vp::incomplete(DOMNAME + " pool pairs"); return; }
    for (size_t j = 0; j < pool.size(); j++) {
      PoolVal &a = pool[i], &b = pool[j];
      std::vector<int> path = a.path;
      std::string ctx = "A: " + hist_str(a.path) + " B: " + hist_str(b.path);
      std::string spec = POOLTAG + "|" + DOMNAME + "|" + CFGNAME + "|" + std::to_string(i) + "|" + std::to_string(j);
      vp::set_case(spec);
      bool wu = a.w_used || b.w_used;
      auto rep = [&](const std::string &clause, const std::string &detail) {
        vp::viol(DOMNAME + ":pair:" + clause, spec, "[" + DOMNAME + " " + CFGNAME + "] " + ctx + " => " + detail);
      };
      if (M_C05) {
        // C05: the ascending iteration of the fixpoint engine for a loop whose body always yields B, started from A:
        //   acc := A; repeat { nw := acc | B; if nw <= acc stop; acc := acc || nw }
        // must become stationary (by the domain's own inclusion test) within a small number of steps.
        try {
          n_pairs++;
          for (int variant = 0; variant < 2; variant++) { // 0: plain widening, 1: widening with thresholds
            std::unique_ptr<DomBox> acc = a.box->clone();
            bool stationary = false;
            int k = 0;
            for (; k < 40; k++) {
              std::unique_ptr<DomBox> nw = acc->clone();
              Op oj; oj.kind = O_JOIN;
              nw->apply(oj, b.box.get());
              n_ops++;
              if (nw->leq(*acc)) { stationary = true; break; }
              Op ow; ow.kind = variant ? O_WIDEN_T : O_WIDEN; ow.thresholds = 1;
              acc->apply(ow, nw.get());
              n_ops++;
            }
            if (!stationary)
              rep(std::string("C05:widening-chain-not-stationary") + (variant ? ":thresholds" : ""),
                  "acc := A; repeat acc := acc || (acc | B) is not stationary after 40 steps; acc = " + acc->print());
          }
        } catch (std::runtime_error &e) {
          if (!is_unsupported("pair", e.what())) rep("abort", e.what());
        }
        continue;
      }
      try {
        n_pairs++;
        bool le = a.box->leq(*b.box);
        if (a.box->is_bottom() && !le) rep("C04:bottom-not-below", a.box->print() + " <= " + b.box->print());
        if (b.box->is_top() && !b.box->is_bottom() && !le) rep("C04:not-below-top", a.box->print() + " <= " + b.box->print());
        if (i == j && !le) rep("C04:leq-not-reflexive", a.box->print());
        if (le) {
          n_leq_yes++;
          Queries q = observe(*b.box, wu);
          for (auto &s : a.W) {
            std::string extra, cl = member_clause(*b.box, s, wu, &q, extra);
            if (!cl.empty()) { rep("C04:leq-yes-but-state-not-in-right:" + cl, a.box->print() + " <= " + b.box->print() + " yes; " + wstr(s, wu) + " " + extra); break; }
          }
        }
        // join / meet / widening on the pair
        struct { int kind; const char *name; } bops[] = {{O_JOIN, "join"}, {O_MEET, "meet"}, {O_WIDEN, "widening"}};
        for (auto &bo : bops) {
          std::unique_ptr<DomBox> r = a.box->clone();
          Op o;
          o.kind = bo.kind;
          r->apply(o, b.box.get());
          n_ops++;
          Queries q = observe(*r, wu);
          WSet need;
          if (bo.kind == O_MEET)
            std::set_intersection(a.W.begin(), a.W.end(), b.W.begin(), b.W.end(), std::back_inserter(need));
          else {
            need = a.W;
            need.insert(need.end(), b.W.begin(), b.W.end());
          }
          for (auto &s : need) {
            std::string extra, cl = member_clause(*r, s, wu, &q, extra);
            if (!cl.empty()) { rep(std::string("C04:") + bo.name + "-loses-state:" + cl, a.box->print() + " " + bo.name + " " + b.box->print() + " = " + r->print() + " misses " + wstr(s, wu) + " " + extra); break; }
          }
          // (a <= a|b by the domain's own inclusion test is NOT demanded: the property only
          // constrains yes-answers; an incomplete test is not a violation)
        }
      } catch (std::runtime_error &e) {
        if (!is_unsupported("pair", e.what())) rep("abort", e.what());
      }
    }
  }
}

// ---- C16 (v): copy forms and normalisation before a later operation ------------
// For every ordered pair (A, B) of a pool of reachable values and every way to build a value V from it
// (A itself, A | B, the fresh - not yet normalised - widening result A || B), every "preparation"
// (none, copy construction, copy assignment into a top / into a non-trivial object, normalize, minimize,
// query_all, and a copy that is mutated afterwards) followed by every later operation of a small set must
// give a result with the same meaning as the same later operation applied to V itself.
std::vector<vh::HOp> copyforms_alphabet(unsigned caps) {
  static const char *names[] = {"assume(x<=y)", "assume(y<=1)", "assume(x<=0)", "assume(x>=0)", "assume(x+y<=1)", "assume(y<=0)",
                                "assume(y>=-1)", "x:=1", "y:=2", "forget(y)"};
  std::vector<vh::HOp> all = vh::build_alphabet(caps, true), r;
  for (auto n : names)
    for (auto &h : all)
      if (h.op.name == n) { r.push_back(h); break; }
  return r;
}
std::string solbits(const DomBox &a) {
  Queries q = observe(a, false);
  if (q.is_bottom) return "bottom";
  std::string bits;
  std::vector<int> vs = tracked_vars(false);
  for (auto &s : UNIVERSE) {
    bool in = true;
    for (auto &c : q.csts)
      if (!c.big && !c.holds(s.v.data())) { in = false; break; }
    for (size_t i = 0; in && i < vs.size(); i++)
      if (!q.at[i].contains(s.v[vs[i]])) in = false;
    bits += in ? '1' : '0';
  }
  return bits;
}
void copyforms(std::vector<PoolVal> &pool) {
  static const char *build_names[] = {"A", "A|B", "A||B"};
  static const char *prep_names[] = {"none", "copy-construct", "copy-assign-into-top", "copy-assign-into-B", "normalize", "minimize", "query_all",
                                     "copy-construct,mutate-copy,use-source", "copy-assign,mutate-copy,use-source", "copy-assign-into-fresh-widening-result"};
  static const char *later_names[] = {"identity", "forget(x)", "forget(y)", "assume(x<=0)", "x:=y", "join B", "meet B", "widen B"};
  const int NB = 3, NP = 10, NL = 8;
  for (size_t i = 0; i < pool.size(); i++) {
    if (!vp::mine(i)) continue;
    for (size_t j = 0; j < pool.size(); j++) {
      if (vp::past_deadline()) { vp::incomplete(DOMNAME + " copy forms"); return; }
      PoolVal &a = pool[i], &b = pool[j];
      if (a.w_used || b.w_used) continue;
      std::string spec = "c|" + DOMNAME + "|" + CFGNAME + "|" + std::to_string(i) + "|" + std::to_string(j) + "|" + FLAVOR;
      vp::set_case(spec);
      std::string ctx = "A: " + hist_str(a.path) + " B: " + hist_str(b.path);
      for (int bk = 0; bk < NB; bk++) {
        if (bk == 0 && j != 0) continue; // A alone does not depend on B except through the later operation; one B suffices... (B = pool[0])
        auto build = [&]() {
          std::unique_ptr<DomBox> v = a.box->clone();
          if (bk) { Op o; o.kind = bk == 1 ? O_JOIN : O_WIDEN; v->apply(o, b.box.get()); n_ops++; }
          return v;
        };
        auto later = [&](DomBox &v, int l) {
          Op o;
          switch (l) {
          case 0: return;
          case 1: o.kind = O_FORGET; o.v0 = VX; break;
          case 2: o.kind = O_FORGET; o.v0 = VY; break;
          case 3: o.kind = O_ASSUME; o.c = cst({{1, VX}}, 0, C_LEQ); break;
          case 4: o.kind = O_ASSIGN; o.v0 = VX; o.e = lin({{1, VY}}, 0); break;
          case 5: o.kind = O_JOIN; break;
          case 6: o.kind = O_MEET; break;
          case 7: o.kind = O_WIDEN; break;
          }
          v.apply(o, l >= 5 ? b.box.get() : nullptr);
          n_ops++;
        };
        try {
          std::string ref[NL];
          for (int l = 0; l < NL; l++) {
            std::unique_ptr<DomBox> v = build();
            later(*v, l);
            ref[l] = solbits(*v);
          }
          for (int p = 1; p < NP; p++)
            for (int l = 0; l < NL; l++) {
              // normalisation legitimately changes the (syntactic) left operand of a widening: not compared
              if (l == 7 && (p == 4 || p == 5 || p == 6)) continue;
              std::unique_ptr<DomBox> v = build(), c;
              DomBox *use = v.get();
              Op o;
              switch (p) {
              case 1: c = v->clone(); use = c.get(); break;
              case 2: c = make_top(); o.kind = O_COPY_FROM; c->apply(o, v.get()); use = c.get(); break;
              case 3: c = b.box->clone(); o.kind = O_COPY_FROM; c->apply(o, v.get()); use = c.get(); break;
              case 4: o.kind = O_NORMALIZE; v->apply(o, nullptr); break;
              case 5: o.kind = O_MINIMIZE; v->apply(o, nullptr); break;
              case 6: o.kind = O_QUERY_ALL; v->apply(o, nullptr); break;
              case 7: c = v->clone(); { Op f; f.kind = O_FORGET; f.v0 = VY; c->apply(f, nullptr); Op t; t.kind = O_SET_TOP; c->apply(t, nullptr); } break;
              case 8: c = make_top(); o.kind = O_COPY_FROM; c->apply(o, v.get()); { Op f; f.kind = O_FORGET; f.v0 = VX; c->apply(f, nullptr); Op t; t.kind = O_SET_BOTTOM; c->apply(t, nullptr); } break;
              case 9: c = b.box->clone(); { Op w; w.kind = O_WIDEN; c->apply(w, a.box.get()); } o.kind = O_COPY_FROM; c->apply(o, v.get()); use = c.get(); break;
              }
              n_ops++;
              later(*use, l);
              n_nodes++;
              std::string got = solbits(*use);
              if (got != ref[l]) {
                std::unique_ptr<DomBox> r0 = build();
                later(*r0, l);
                vp::viol(DOMNAME + ":C16:copy-or-normalisation-changes-later-result:" + prep_names[p], spec,
                         "[" + DOMNAME + " " + CFGNAME + " " + FLAVOR + "] " + ctx + " V = " + build_names[bk] + " = " + build()->print() + "; " + later_names[l] + " on V gives " + r0->print() +
                             " but after " + prep_names[p] + " it gives " + use->print());
                goto next_pair;
              }
            }
        } catch (std::runtime_error &e) {
          if (!is_unsupported("copyforms", e.what())) vp::viol(DOMNAME + ":C16:abort", spec, "[" + DOMNAME + " " + CFGNAME + "] " + ctx + " " + e.what());
        }
      }
    next_pair:;
    }
  }
}

} // namespace

int main(int argc, char **argv) {
  vp::parse_args(argc, argv);
  vp::install_crash_handler();
  quiet_crab();
  load_unsupported();
  PROP = vp::args().check;
  M_C03 = PROP == "C03";
  M_C04 = PROP == "C04";
  M_C16 = PROP == "C16";
  M_C05 = PROP == "C05";
  bool th = vp::args().thorough();
  std::string only = vp::args().opt.count("domains") ? vp::args().opt["domains"] : "";
  std::string mode = vp::args().opt.count("mode") ? vp::args().opt["mode"] : "dfs";
  int depth_core = vp::args().opt.count("depth-core") ? atoi(vp::args().opt["depth-core"].c_str()) : (th ? 4 : 3);
  int depth_ext = vp::args().opt.count("depth-ext") ? atoi(vp::args().opt["depth-ext"].c_str()) : (th ? 3 : 2);

  // ---- replay of a single history
  if (!vp::args().replay.empty()) {
    auto f = vp::split(vp::args().replay, '|');
    DOM = find_domain(f[1]);
    if (!DOM) { fprintf(stderr, "unknown domain %s\n", f[1].c_str()); return 2; }
    DOMNAME = f[1];
    CFGNAME = f[2];
    for (auto &c : DOM->configs_thorough)
      if (c.name == CFGNAME) apply_config(c);
    for (auto &c : DOM->configs_quick)
      if (c.name == CFGNAME) apply_config(c);
    init_universe();
    ALPHA = build_alphabet(DOM->caps, true);
    if (f[0] == "h") {
      FLAVOR = f[3];
      std::vector<int> path;
      for (auto &t : vp::split(f[4], '.')) path.push_back(atoi(t.c_str()));
      // flavour "direct4" = the direct type in the four-variable phase
      if (FLAVOR == "direct4") REL4 = true;
      if (REL4) init_universe();
      if (FLAVOR == "linear") {
        linear_run(path);
      } else if (FLAVOR == "lockstep") {
        MAXD = (int)path.size();
        // re-run the lock-step exploration restricted to this path by brute force
        FLAVOR = "direct"; Node d = initial_node();
        FLAVOR = "wrapped"; Node w = initial_node();
        FLAVOR = "ref"; Node r = initial_node();
        std::vector<int> p;
        vp::args().nslices = 1;
        vp::args().slice = 0;
        lockstep({}, 0, d, w, r, p);
      } else {
        Node n = initial_node();
        std::vector<int> p;
        MAXD = (int)path.size();
        for (size_t i = 0; i < path.size(); i++) {
          p.push_back(path[i]);
          Node parent = n;
          Status st = apply_op(ALPHA[path[i]], n, p);
          if (st != ST_OK) break;
          check_reg(n, 0, p);
          if (ALPHA[path[i]].engine) check_reg(n, 1, p);
          if (M_C04) check_lattice(n, p);
          if (M_C16) {
            int k = ALPHA[path[i]].op.kind;
            if (!ALPHA[path[i]].engine && (k == O_QUERY_ALL || k == O_NORMALIZE || k == O_MINIMIZE)) {
              if (meaning(*parent.r[0].box, parent.w_used) != meaning(*n.r[0].box, n.w_used))
                report("C16:query-changes-meaning", p, "before " + parent.r[0].box->print() + " after " + n.r[0].box->print());
            }
          }
        }
        if (M_C16) { // the parent-unchanged clause needs the subtree: explore below the prefix
          std::vector<int> pp(path.begin(), path.end() - 1);
          Node m = initial_node();
          std::vector<int> q;
          bool good = true;
          for (int oi : pp) { q.push_back(oi); if (apply_op(ALPHA[oi], m, q) != ST_OK) good = false; }
          if (good) { MAXD = (int)pp.size() + 1; dfs(m, (int)pp.size(), q, 0, (int)ALPHA.size()); }
        }
      }
    } else if (f[0] == "p" || f[0] == "q") {
      // rebuild the pool deterministically and re-check the pair
      POOLTAG = f[0];
      ALPHA = f[0] == "p" ? build_alphabet(DOM->caps, false) : octagonal_alphabet(DOM->caps);
      Node n = initial_node();
      std::vector<PoolVal> pool;
      std::set<std::string> seen;
      std::vector<int> path;
      collect_pool(n, 0, 2, path, pool, seen, th ? 600 : 250);
      size_t i = atoi(f[3].c_str());
      std::vector<PoolVal> &P = pool;
      // slice so that only row i is processed
      vp::args().nslices = (unsigned)P.size();
      vp::args().slice = (unsigned)i;
      pool_pairs(P);
    } else if (f[0] == "c") {
      ALPHA = copyforms_alphabet(DOM->caps);
      FLAVOR = f.size() > 5 ? f[5] : "direct";
      Node n = initial_node();
      std::vector<PoolVal> pool;
      std::set<std::string> seen;
      std::vector<int> path;
      collect_pool(n, 0, th ? 4 : 3, path, pool, seen, 100000);
      vp::args().nslices = (unsigned)pool.size();
      vp::args().slice = (unsigned)atoi(f[3].c_str());
      copyforms(pool);
    }
    vp::finish();
    return 0;
  }

  uint64_t unit = 0;
  for (auto &e : registry()) {
    if (!only.empty() && ("," + only + ",").find("," + e.name + ",") == std::string::npos) continue;
    if (!(e.caps & CAP_NUM)) continue;
    if (e.caps & CAP_MACHINE) continue; // machine-integer semantics: handled by the C13 program check
    DOM = &e;
    DOMNAME = e.name;
    init_universe();
    const std::vector<Config> &cfgs = th ? e.configs_thorough : e.configs_quick;
    for (auto &cfg : cfgs) {
      apply_config(cfg);
      CFGNAME = cfg.name;
      if (mode == "dfs") {
        // phase A: extended alphabet to depth_ext; phase B: core alphabet to depth_core
        // phase 2 (domains that model booleans only): the boolean-focus alphabet, one level deeper than the core phase
        // phase 3 (relational domains only): four-variable relational alphabet, w is an ordinary variable
        const bool relational = e.name.find("dbm") != std::string::npos || e.name.find("oct") != std::string::npos ||
                                e.name == "num_product" || e.name == "value_partitioning";
        for (int phase = 0; phase < 4; phase++) {
          if (phase >= 2 && M_C16) continue; // the focus phases target transformer soundness, not value semantics
          if (phase == 2 && !(e.caps & CAP_BOOL)) continue;
          if (phase == 3 && !relational) continue;
          // quick tier: the two focus phases run on the domains that own the mechanism (flat boolean domains; zones and
          // octagons with every closure setting) and, for the wrappers around them, with the first configuration only
          const bool owner = e.name == "bool_int" || e.name == "bool_sparse_dbm" || e.name == "sparse_dbm" || e.name == "split_dbm" || e.name == "split_oct";
          if (!th && phase >= 2 && !owner && &cfg != &cfgs[0]) continue;
          ALPHA = build_alphabet(e.caps, true);
          std::vector<int> first; // first-step op indices for this phase
          std::vector<int> allowed;
          for (int i = 0; i < (int)ALPHA.size(); i++)
            if ((phase == 0 && ALPHA[i].tier <= 1) || (phase == 1 && ALPHA[i].tier == 0) || (phase == 2 && ALPHA[i].focus) || (phase == 3 && ALPHA[i].rel4))
              allowed.push_back(i);
          for (auto &h : ALPHA) {
            if (phase == 0 && h.tier > 1) h.disabled = true;
            if (phase == 1 && h.tier != 0) h.disabled = true;
            if (phase == 2 && !h.focus) h.disabled = true;
            if (phase == 3 && !h.rel4) h.disabled = true;
          }
          REL4 = phase == 3;
          init_universe();
          MAXD = phase == 0 ? depth_ext : (phase == 1 ? depth_core : depth_core + 1);
          FLAVOR = phase == 3 ? "direct4" : "direct";
          for (int oi : allowed) {
            if (!vp::mine(unit++)) continue;
            if (vp::past_deadline()) { vp::incomplete(DOMNAME + " " + CFGNAME + " phase " + std::to_string(phase)); break; }
            Node n = initial_node();
            std::vector<int> path;
            dfs(n, 0, path, oi, oi + 1);
          }
        }
      } else if (mode == "lockstep") {
        ALPHA = build_alphabet(e.caps, true);
        for (auto &h : ALPHA)
          if (h.tier > 1) h.disabled = true; // the four-variable operations belong to their own phase (w is not fresh there)
        MAXD = depth_ext;
        FLAVOR = "direct"; Node d = initial_node();
        FLAVOR = "wrapped"; Node w = initial_node();
        FLAVOR = "ref"; Node r = initial_node();
        std::vector<int> p;
        lockstep({}, 0, d, w, r, p);
      } else if (mode == "linear") {
        if (e.name != "intervals" && e.name != "split_dbm" && e.name != "term_int" && !(th && (e.name == "split_oct" || e.name == "bool_int"))) continue;
        if (&cfg != &cfgs[0]) continue; // the wrappers do not depend on the domain parameters
        ALPHA = build_alphabet(e.caps, true);
        linear_all(th ? 6 : 5);
      } else if (mode == "copyforms") {
        if (&cfg != &cfgs[0] && e.name != "split_dbm" && e.name != "split_oct" && e.name != "sparse_dbm") continue;
        // quick tier: the domains that own a lazily normalised or shared representation, and one wrapper of each kind around them
        static const char *quick_doms[] = {"split_dbm", "split_oct", "sparse_dbm", "term_int", "term_sdbm", "intervals", "dis_intervals", "powerset_int",
                                           "packing_sdbm", "rgn_sdbm", "aa_sdbm", "bool_sparse_dbm"};
        if (!th && std::find(std::begin(quick_doms), std::end(quick_doms), e.name) == std::end(quick_doms)) continue;
        ALPHA = copyforms_alphabet(e.caps);
        // the type-erased flavours (copy-on-write reference wrapper, owning wrapper): first configuration of two domains (all in thorough)
        const bool flavours = &cfg == &cfgs[0] && (th || e.name == "intervals" || e.name == "split_dbm");
        for (const char *fl : {"direct", "wrapped", "ref"}) {
          if (std::string(fl) != "direct" && !flavours) continue;
          FLAVOR = fl;
          Node n = initial_node();
          std::vector<PoolVal> pool;
          std::set<std::string> seen;
          std::vector<int> path;
          collect_pool(n, 0, th ? 4 : 3, path, pool, seen, 100000);
          vp::statmax("copyforms_pool." + DOMNAME, (long long)pool.size());
          copyforms(pool);
        }
        FLAVOR = "direct";
      } else if (mode == "pairs") {
        ALPHA = build_alphabet(e.caps, false);
        FLAVOR = "direct";
        Node n = initial_node();
        std::vector<PoolVal> pool;
        std::set<std::string> seen;
        std::vector<int> path;
        collect_pool(n, 0, 2, path, pool, seen, th ? 600 : 250);
        vp::statmax("pool." + DOMNAME, (long long)pool.size());
        pool_pairs(pool);
        // second pool: the octagonal-shapes alphabet (all of it: 16 + 16^2 histories before deduplication)
        ALPHA = octagonal_alphabet(e.caps);
        POOLTAG = "q";
        Node n2 = initial_node();
        std::vector<PoolVal> pool2;
        std::set<std::string> seen2;
        collect_pool(n2, 0, 2, path, pool2, seen2, 400);
        vp::statmax("pool2." + DOMNAME, (long long)pool2.size());
        pool_pairs(pool2);
        POOLTAG = "p";
      }
    }
  }
  vp::stat("states", n_nodes + n_pairs);
  vp::stat("transitions", n_ops);
  vp::stat("traces_validated_against_impl", n_nodes + n_pairs);
  vp::stat("evaluations", n_nodes + n_pairs);
  vp::stat("member_checks", n_member);
  vp::stat("bottom_states", n_bottom);
  vp::stat("skipped_unsupported", n_unsupported);
  vp::stat("leq_yes_answers", n_leq_yes);
  vp::stat("distinct_nontrivial", (long long)distinct_prints.size());
  vp::finish();
  return 0;
}
