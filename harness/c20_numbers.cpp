// C20 — numbers and linear constraints keep their mathematical meaning.
//
// Part 1 (z_number, q_number, safe_i64): every pair of a boundary alphabet x
// every operation is executed on the real classes; each (operands, result) row
// is printed and recomputed by harness/pyref/check_numbers.py with Python
// integers / Fractions (an implementation independent of GMP).
// Part 2 (linear layer): all small expressions/constraints x all valuations in
// a box, decided here by brute-force evaluation.
#include "common/proto.hpp"
#include "common/crabdefs.hpp"

#include <crab/numbers/bignums.hpp>
#include <crab/numbers/safeint.hpp>
#include <crab/support/debug.hpp>
#include <crab/types/linear_constraints.hpp>
#include <crab/types/variable.hpp>
#include <crab/types/varname_factory.hpp>

using namespace ikos;
typedef long long ll;

static void row(const std::string &ty, const std::string &op,
                const std::string &a, const std::string &b,
                const std::string &res) {
  printf("ROW\t%s\t%s\t%s\t%s\t%s\n", ty.c_str(), op.c_str(), a.c_str(),
         b.c_str(), res.c_str());
  vp::stat("evaluations");
}

static std::vector<std::string> z_alphabet() {
  std::vector<std::string> pos = {"1", "2", "3", "7", "2147483647", "2147483648",
                                  "2147483649", "4294967296",
                                  "9223372036854775807", "9223372036854775808",
                                  "9223372036854775809", "18446744073709551616",
                                  "18446744073709551617",
                                  "1000000000000000000000000000000"};
  if (vp::args().thorough()) {
    for (const char *s : {"4", "5", "6", "8", "15", "16", "255", "256", "65535",
                          "65536", "4294967295", "4294967297",
                          "18446744073709551615", "340282366920938463463374607431768211456",
                          "340282366920938463463374607431768211455", "99999999999999999999"})
      pos.push_back(s);
  }
  std::vector<std::string> out = {"0"};
  for (auto &p : pos) {
    out.push_back(p);
    out.push_back("-" + p);
  }
  return out;
}

template <typename F> static void guarded(const std::string &ty,
                                          const std::string &op,
                                          const std::string &a,
                                          const std::string &b, F f) {
  try {
    row(ty, op, a, b, f());
  } catch (crab::verif::crab_error &e) {
    row(ty, op, a, b, std::string("ABORT:") + e.what());
  }
}

static void do_z(uint64_t &caseno) {
  std::vector<std::string> A = z_alphabet();
  std::vector<int> shifts = {0, 1, 2, 31, 32, 63, 64, 65, 70};
  for (size_t i = 0; i < A.size(); i++) {
    if (!vp::mine(caseno++)) continue;
    vp::set_case("z:" + A[i]);
    z_number a(A[i]);
    // unary
    guarded("z", "str", A[i], "", [&] { return a.get_str(); });
    guarded("z", "str16", A[i], "", [&] { return a.get_str(16); });
    guarded("z", "neg", A[i], "", [&] { return (-a).get_str(); });
    guarded("z", "preinc", A[i], "", [&] { z_number x(a); ++x; return x.get_str(); });
    guarded("z", "predec", A[i], "", [&] { z_number x(a); --x; return x.get_str(); });
    guarded("z", "postinc", A[i], "", [&] { z_number x(a); z_number y = x++; return y.get_str() + "," + x.get_str(); });
    guarded("z", "postdec", A[i], "", [&] { z_number x(a); z_number y = x--; return y.get_str() + "," + x.get_str(); });
    guarded("z", "fits_int64", A[i], "", [&] { return std::to_string((int)a.fits_int64()); });
    guarded("z", "to_int64", A[i], "", [&] { return std::to_string((int64_t)a); });
    guarded("z", "safe_i64_ctor", A[i], "", [&] { return std::to_string((int64_t)crab::safe_i64(a)); });
    if (a >= z_number(0))
      guarded("z", "fill_ones", A[i], "", [&] { return a.fill_ones().get_str(); });
    guarded("z", "copy_move", A[i], "", [&] {
      z_number x(a), y(std::move(x)), z;
      z = y;
      z_number w;
      w = std::move(y);
      return z.get_str() + "," + w.get_str();
    });
    guarded("z", "hash_eq", A[i], "", [&] {
      z_number x(A[i]);
      z_number y = (a + z_number(5)) - z_number(5);
      return std::to_string((int)(x.hash() == a.hash() && y.hash() == a.hash()));
    });
    guarded("z", "raw_roundtrip", A[i], "", [&] {
      z_number x(a);
      size_t n = 0;
      bool sign = true;
      uint64_t *d = x.to_raw_data(n, sign, false);
      z_number y = z_number::from_raw_data(d, n, false);
      if (!sign) y = -y;
      size_t n2 = 0;
      bool sign2 = true;
      uint64_t *d2 = x.to_raw_data(n2, sign2, true);
      z_number y2 = z_number::from_raw_data(d2, n2, true);
      if (!sign2) y2 = -y2;
      free(d);
      free(d2);
      return y.get_str() + "," + y2.get_str();
    });
    if (a.fits_int64()) {
      int64_t v = (int64_t)a;
      guarded("z", "from_int64", A[i], "", [&] { return z_number(v).get_str(); });
      if (v >= 0)
        guarded("z", "from_uint64", A[i], "", [&] { return z_number::from_uint64((uint64_t)v).get_str(); });
    }
    if (a >= z_number(0) && a <= z_number("18446744073709551615")) {
      // from_uint64 above 2^63
      unsigned long long u = strtoull(A[i].c_str(), nullptr, 10);
      guarded("z", "from_uint64", A[i], "", [&] { return z_number::from_uint64((uint64_t)u).get_str(); });
    }
    for (int k : shifts) {
      guarded("z", "shl", A[i], std::to_string(k), [&] { return (a << z_number(k)).get_str(); });
      guarded("z", "shr", A[i], std::to_string(k), [&] { return (a >> z_number(k)).get_str(); });
    }
    for (size_t j = 0; j < A.size(); j++) {
      z_number b(A[j]);
      guarded("z", "add", A[i], A[j], [&] { return (a + b).get_str(); });
      guarded("z", "sub", A[i], A[j], [&] { return (a - b).get_str(); });
      guarded("z", "mul", A[i], A[j], [&] { return (a * b).get_str(); });
      guarded("z", "add_assign", A[i], A[j], [&] { z_number x(a); x += b; return x.get_str(); });
      guarded("z", "sub_assign", A[i], A[j], [&] { z_number x(a); x -= b; return x.get_str(); });
      guarded("z", "mul_assign", A[i], A[j], [&] { z_number x(a); x *= b; return x.get_str(); });
      if (!(b == z_number(0))) {
        guarded("z", "div", A[i], A[j], [&] { return (a / b).get_str(); });
        guarded("z", "rem", A[i], A[j], [&] { return (a % b).get_str(); });
        guarded("z", "div_assign", A[i], A[j], [&] { z_number x(a); x /= b; return x.get_str(); });
        guarded("z", "rem_assign", A[i], A[j], [&] { z_number x(a); x %= b; return x.get_str(); });
      }
      guarded("z", "and", A[i], A[j], [&] { return (a & b).get_str(); });
      guarded("z", "or", A[i], A[j], [&] { return (a | b).get_str(); });
      guarded("z", "xor", A[i], A[j], [&] { return (a ^ b).get_str(); });
      guarded("z", "cmp", A[i], A[j], [&] {
        std::string s;
        s += (a == b) ? '1' : '0';
        s += (a != b) ? '1' : '0';
        s += (a < b) ? '1' : '0';
        s += (a <= b) ? '1' : '0';
        s += (a > b) ? '1' : '0';
        s += (a >= b) ? '1' : '0';
        return s;
      });
      // checked 64-bit weights: exact result or abort, never a wrapped value
      if (a.fits_int64() && b.fits_int64()) {
        crab::safe_i64 x((int64_t)a), y((int64_t)b);
        guarded("s", "add", A[i], A[j], [&] { return std::to_string((int64_t)(x + y)); });
        guarded("s", "sub", A[i], A[j], [&] { return std::to_string((int64_t)(x - y)); });
        guarded("s", "mul", A[i], A[j], [&] { return std::to_string((int64_t)(x * y)); });
        if (!(b == z_number(0)))
          guarded("s", "div", A[i], A[j], [&] { return std::to_string((int64_t)(x / y)); });
        guarded("s", "add_assign", A[i], A[j], [&] { crab::safe_i64 t(x); t += y; return std::to_string((int64_t)t); });
        guarded("s", "sub_assign", A[i], A[j], [&] { crab::safe_i64 t(x); t -= y; return std::to_string((int64_t)t); });
        guarded("s", "cmp", A[i], A[j], [&] {
          std::string s;
          s += (x == y) ? '1' : '0';
          s += (x != y) ? '1' : '0';
          s += (x < y) ? '1' : '0';
          s += (x <= y) ? '1' : '0';
          s += (x > y) ? '1' : '0';
          s += (x >= y) ? '1' : '0';
          return s;
        });
      }
    }
    if (a.fits_int64())
      guarded("s", "neg", A[i], "", [&] { return std::to_string((int64_t)(-crab::safe_i64((int64_t)a))); });
  }
}

static void do_q(uint64_t &caseno) {
  std::vector<std::string> nums = {"0", "1", "-1", "2", "-3", "7", "2147483648",
                                   "-9223372036854775809",
                                   "1000000000000000000000000000000"};
  std::vector<std::string> dens = {"1", "2", "3", "7", "9223372036854775808"};
  struct Q {
    std::string n, d;
  };
  std::vector<Q> A;
  for (auto &n : nums)
    for (auto &d : dens) A.push_back({n, d});
  auto qs = [](const q_number &q) {
    return q.numerator().get_str() + "/" + q.denominator().get_str();
  };
  for (size_t i = 0; i < A.size(); i++) {
    if (!vp::mine(caseno++)) continue;
    std::string as = A[i].n + "/" + A[i].d;
    vp::set_case("q:" + as);
    q_number a{z_number(A[i].n), z_number(A[i].d)};
    guarded("q", "canon", as, "", [&] { return qs(a); });
    guarded("q", "str", as, "", [&] { return a.get_str(); });
    guarded("q", "neg", as, "", [&] { return qs(-a); });
    guarded("q", "floor", as, "", [&] { return a.round_to_lower().get_str(); });
    guarded("q", "ceil", as, "", [&] { return a.round_to_upper().get_str(); });
    guarded("q", "preinc", as, "", [&] { q_number x(a); ++x; return qs(x); });
    guarded("q", "predec", as, "", [&] { q_number x(a); --x; return qs(x); });
    guarded("q", "from_str", as, "", [&] { return qs(q_number(a.get_str())); });
    guarded("q", "from_z", A[i].n, "", [&] { return qs(q_number(z_number(A[i].n))); });
    for (size_t j = 0; j < A.size(); j++) {
      std::string bs = A[j].n + "/" + A[j].d;
      q_number b{z_number(A[j].n), z_number(A[j].d)};
      guarded("q", "add", as, bs, [&] { return qs(a + b); });
      guarded("q", "sub", as, bs, [&] { return qs(a - b); });
      guarded("q", "mul", as, bs, [&] { return qs(a * b); });
      if (A[j].n != "0") guarded("q", "div", as, bs, [&] { return qs(a / b); });
      guarded("q", "add_assign", as, bs, [&] { q_number x(a); x += b; return qs(x); });
      guarded("q", "sub_assign", as, bs, [&] { q_number x(a); x -= b; return qs(x); });
      guarded("q", "mul_assign", as, bs, [&] { q_number x(a); x *= b; return qs(x); });
      if (A[j].n != "0") guarded("q", "div_assign", as, bs, [&] { q_number x(a); x /= b; return qs(x); });
      guarded("q", "cmp", as, bs, [&] {
        std::string s;
        s += (a == b) ? '1' : '0';
        s += (a != b) ? '1' : '0';
        s += (a < b) ? '1' : '0';
        s += (a <= b) ? '1' : '0';
        s += (a > b) ? '1' : '0';
        s += (a >= b) ? '1' : '0';
        return s;
      });
    }
  }
}

// ------------------------- linear layer -------------------------------------
typedef crab::var_factory_impl::str_variable_factory vfac_t;
typedef vfac_t::varname_t varname_t;
typedef crab::variable<z_number, varname_t> var_t;
typedef linear_expression<z_number, varname_t> lexp_t;
typedef linear_constraint<z_number, varname_t> lcst_t;
typedef linear_constraint_system<z_number, varname_t> lsys_t;

struct Lin {
  ll cx, cy, k;
  bool big; // cx is multiplied by 2^40 (large-coefficient variant)
};
static z_number eval(const lexp_t &e, const var_t &x, const var_t &y, ll vx,
                     ll vy) {
  z_number r = e.constant();
  for (auto it = e.begin(); it != e.end(); ++it) {
    auto kv = *it;
    ll v = kv.second.name().str() == "x" ? vx : vy;
    if (kv.second.name().str() != "x" && kv.second.name().str() != "y")
      vp::viol("linear.eval:unknown-variable", "lin", kv.second.name().str());
    r = r + kv.first * z_number((long)v);
  }
  return r;
}
static bool holds(const lcst_t &c, const var_t &x, const var_t &y, ll vx,
                  ll vy) {
  z_number v = eval(c.expression(), x, y, vx, vy);
  switch (c.kind()) {
  case lcst_t::EQUALITY: return v == z_number(0);
  case lcst_t::DISEQUATION: return v != z_number(0);
  case lcst_t::INEQUALITY: return v <= z_number(0);
  default: return v < z_number(0);
  }
}
static std::string show_c(const lcst_t &c) {
  crab::crab_string_os os;
  os << c;
  return os.str();
}
static std::string show_e(const lexp_t &c) {
  crab::crab_string_os os;
  os << c;
  return os.str();
}

static void do_linear(uint64_t &caseno) {
  vfac_t vfac;
  var_t x(vfac["x"], crab::INT_TYPE, 32), y(vfac["y"], crab::INT_TYPE, 32);
  var_t z(vfac["z"], crab::INT_TYPE, 32);
  int C = vp::args().thorough() ? 3 : 2;
  int B = 4;
  std::vector<Lin> L;
  for (ll a = -C; a <= C; a++)
    for (ll b = -C; b <= C; b++)
      for (ll k = -C; k <= C; k++) L.push_back({a, b, k, false});
  L.push_back({1, -1, 0, true});
  L.push_back({-1, 2, 1, true});
  // deliberately built with explicit (possibly zero) coefficients, the way
  // number * variable does
  auto build = [&](const Lin &l) {
    z_number cx((long)l.cx);
    if (l.big) cx = cx * z_number("1099511627776");
    lexp_t e = cx * x;
    e = e + z_number((long)l.cy) * y;
    e = e + z_number((long)l.k);
    return e;
  };
  auto value = [&](const Lin &l, ll vx, ll vy) {
    z_number cx((long)l.cx);
    if (l.big) cx = cx * z_number("1099511627776");
    return cx * z_number((long)vx) + z_number((long)(l.cy * vy + l.k));
  };
  std::set<uint64_t> distinct;
  for (size_t i = 0; i < L.size(); i++) {
    uint64_t idx = caseno++;
    std::string spec = "lin:" + std::to_string(i);
    if (!vp::args().replay.empty()) {
      if (vp::args().replay.rfind(spec + ":", 0) != 0 && vp::args().replay != spec) continue;
    } else if (!vp::mine(idx))
      continue;
    vp::set_case(spec);
    lexp_t e1 = build(L[i]);
    // evaluation homomorphism of the expression itself
    for (ll vx = -B; vx <= B; vx++)
      for (ll vy = -B; vy <= B; vy++) {
        vp::stat("evaluations");
        if (!(eval(e1, x, y, vx, vy) == value(L[i], vx, vy)))
          vp::viol("linear.build:wrong", spec, show_e(e1));
      }
    // operator[] and size/is_constant agree with coefficients
    {
      z_number cx((long)L[i].cx);
      if (L[i].big) cx = cx * z_number("1099511627776");
      if (!(e1[x] == cx) || !(e1[y] == z_number((long)L[i].cy)) ||
          !(e1.constant() == z_number((long)L[i].k)))
        vp::viol("linear.coefficients:wrong", spec, show_e(e1));
    }
    // scaling, negation, renaming
    for (ll n = -2; n <= 2; n++) {
      lexp_t s = e1 * z_number((long)n);
      lexp_t s2 = z_number((long)n) * e1;
      for (ll vx = -B; vx <= B; vx++)
        for (ll vy = -B; vy <= B; vy++) {
          vp::stat("evaluations");
          z_number exp = value(L[i], vx, vy) * z_number((long)n);
          if (!(eval(s, x, y, vx, vy) == exp) || !(eval(s2, x, y, vx, vy) == exp))
            vp::viol("linear.scale:wrong", spec, show_e(e1) + " * " + std::to_string(n) + " = " + show_e(s));
        }
    }
    {
      lexp_t ng = -e1;
      for (ll vx = -B; vx <= B; vx++)
        for (ll vy = -B; vy <= B; vy++) {
          vp::stat("evaluations");
          if (!(eval(ng, x, y, vx, vy) == -value(L[i], vx, vy)))
            vp::viol("linear.neg:wrong", spec, show_e(e1));
        }
      // renaming: every (partial, possibly non-injective) map from {x,y} to
      // {x,y,z}: eval(rename(e,m), rho) == eval(e, rho o m)
      var_t tgt[3] = {x, y, z};
      const char *tn[4] = {"x", "y", "z", "-"};
      for (int mx = 0; mx < 4; mx++)
        for (int my = 0; my < 4; my++) {
          std::map<var_t, var_t> ren;
          if (mx < 3) ren.insert({x, tgt[mx]});
          if (my < 3) ren.insert({y, tgt[my]});
          lexp_t r = e1.rename(ren);
          lcst_t rc = lcst_t(e1, lcst_t::INEQUALITY).rename(ren);
          vp::stat("transitions");
          for (ll vx = -2; vx <= 2; vx++)
            for (ll vy = -2; vy <= 2; vy++)
              for (ll vz = -2; vz <= 2; vz++) {
                ll val[3] = {vx, vy, vz};
                ll sx = mx < 3 ? val[mx] : vx, sy = my < 3 ? val[my] : vy;
                vp::stat("evaluations");
                z_number got = r.constant();
                for (auto it = r.begin(); it != r.end(); ++it) {
                  auto kv = *it;
                  std::string nm = kv.second.name().str();
                  got = got + kv.first * z_number((long)(nm == "x" ? vx : nm == "y" ? vy : vz));
                }
                z_number gotc = rc.expression().constant();
                for (auto it = rc.begin(); it != rc.end(); ++it) {
                  auto kv = *it;
                  std::string nm = kv.second.name().str();
                  gotc = gotc + kv.first * z_number((long)(nm == "x" ? vx : nm == "y" ? vy : vz));
                }
                if (!(got == value(L[i], sx, sy)) || !(gotc == value(L[i], sx, sy)))
                  vp::viol("linear.rename:wrong", spec,
                           show_e(e1) + " renamed with {x->" + tn[mx] + ", y->" + tn[my] + "} = " + show_e(r));
              }
        }
    }
    // constraints of every kind over e1: negate is the exact complement;
    // tautology/contradiction exact on constant constraints
    lcst_t::kind_t kinds[4] = {lcst_t::EQUALITY, lcst_t::DISEQUATION,
                               lcst_t::INEQUALITY, lcst_t::STRICT_INEQUALITY};
    for (int k = 0; k < 4; k++) {
      lcst_t c(e1, kinds[k]);
      lcst_t n = c.negate();
      bool all = true, none = true;
      for (ll vx = -B; vx <= B; vx++)
        for (ll vy = -B; vy <= B; vy++) {
          vp::stat("evaluations");
          bool h = holds(c, x, y, vx, vy), hn = holds(n, x, y, vx, vy);
          all = all && h;
          none = none && !h;
          if (h == hn)
            vp::viol("linear.negate:not-complement", spec + ":k" + std::to_string(k),
                     show_c(c) + " negated " + show_c(n) + " at x=" + std::to_string(vx) + " y=" + std::to_string(vy));
        }
      if (c.is_tautology() && !all)
        vp::viol("linear.is_tautology:wrong", spec + ":k" + std::to_string(k), show_c(c));
      if (c.is_contradiction() && !none)
        vp::viol("linear.is_contradiction:wrong", spec + ":k" + std::to_string(k), show_c(c));
      if (L[i].cx == 0 && L[i].cy == 0 && !L[i].big) {
        // a constant constraint (even when built with explicit zero
        // coefficients it denotes a constant): the tests must be exact
        lcst_t cc(lexp_t(z_number((long)L[i].k)), kinds[k]);
        bool t = holds(cc, x, y, 0, 0);
        if (cc.is_tautology() != t || cc.is_contradiction() != !t)
          vp::viol("linear.constant-tests:inexact", spec + ":k" + std::to_string(k), show_c(cc));
        lcst_t nn = cc.negate();
        if (holds(nn, x, y, 0, 0) == t)
          vp::viol("linear.negate:not-complement", spec + ":k" + std::to_string(k), show_c(cc));
      }
      distinct.insert(vp::fnv(show_c(c)));
    }
    // pairs: sum, difference; systems of two inequalities and normalize()
    for (size_t j = 0; j < L.size(); j++) {
      if (L[i].big != L[j].big) continue;
      lexp_t e2 = build(L[j]);
      lexp_t s = e1 + e2, d = e1 - e2;
      vp::stat("transitions", 2);
      for (ll vx = -B; vx <= B; vx += 2)
        for (ll vy = -B; vy <= B; vy += 2) {
          vp::stat("evaluations", 2);
          if (!(eval(s, x, y, vx, vy) == value(L[i], vx, vy) + value(L[j], vx, vy)))
            vp::viol("linear.add:wrong", spec + ":" + std::to_string(j), show_e(e1) + " + " + show_e(e2) + " = " + show_e(s));
          if (!(eval(d, x, y, vx, vy) == value(L[i], vx, vy) - value(L[j], vx, vy)))
            vp::viol("linear.sub:wrong", spec + ":" + std::to_string(j), show_e(e1) + " - " + show_e(e2) + " = " + show_e(d));
        }
      if (L[i].big) continue;
      // normalize: {e1 <= 0, e2 <= 0} and {e1 <= 0, e2 <= 0, x - y == k}
      lsys_t sys;
      sys += lcst_t(e1, lcst_t::INEQUALITY);
      sys += lcst_t(e2, lcst_t::INEQUALITY);
      if ((i + j) % 3 == 0) sys += lcst_t(e1 - e2, lcst_t::DISEQUATION);
      lsys_t nz = sys.normalize();
      for (ll vx = -B; vx <= B; vx++)
        for (ll vy = -B; vy <= B; vy++) {
          vp::stat("evaluations");
          bool a = true, b = true;
          for (auto &c : sys) a = a && holds(c, x, y, vx, vy);
          for (auto &c : nz) b = b && holds(c, x, y, vx, vy);
          if (a != b) {
            crab::crab_string_os os;
            os << sys << " normalized to " << nz;
            vp::viol("linear.normalize:changes-solutions", spec + ":" + std::to_string(j), os.str());
          }
        }
    }
    if (vp::want_sample())
      vp::sample("linear: " + show_c(lcst_t(e1, lcst_t::INEQUALITY)) + " negate -> " +
                 show_c(lcst_t(e1, lcst_t::INEQUALITY).negate()));
  }
  vp::stat("distinct_nontrivial", distinct.size());
}

int main(int argc, char **argv) {
  vp::parse_args(argc, argv);
  vp::install_crash_handler();
  crab::CrabEnableWarningMsg(false);
  uint64_t caseno = 0;
  std::string part = vp::args().opt.count("part") ? vp::args().opt["part"] : "";
  if (!vp::args().replay.empty()) {
    part = vp::args().replay.rfind("lin", 0) == 0 ? "linear" : "numbers";
  }
  if (part.empty() || part == "numbers") {
    do_z(caseno);
    do_q(caseno);
  }
  if (part.empty() || part == "linear") do_linear(caseno);
  vp::finish();
  return 0;
}
