// E2 — program-level explorer: every small CrabIR program (all CFG skeletons x
// statement alphabets) is built as a real crab cfg, its concrete behaviour is
// explored exhaustively (all initial states, havoc values, goto choices within
// bounds), and the real analyzers are run on it under every configuration.
//   C01: forward invariants contain every concrete state
//   C02: SAFE / UNREACHABLE verdicts of the checkers are never wrong
//   C05: every analysis run terminates within a deterministic tick budget
//   C11: backward analysis returns necessary preconditions
//   C06: (real-domain clause) no extrapolation within widening_delay
#include "common/progs.hpp"

#include <crab/analysis/bwd_analyzer.hpp>
#include <crab/analysis/dataflow/liveness.hpp>
#include <crab/analysis/fwd_analyzer.hpp>
#include <crab/checkers/assertion.hpp>
#include <crab/checkers/div_zero.hpp>
#include <crab/checkers/checker.hpp>

using namespace vb;
using namespace vg;
using vh::cst;
using vh::lin;

namespace {

typedef crab::analyzer::intra_fwd_analyzer<z_cfg_ref_t, wrapped_t> fwd_t;
typedef crab::analyzer::intra_forward_backward_analyzer<z_cfg_ref_t, wrapped_t> fwdbwd_t;
typedef crab::analyzer::necessary_preconditions_fixpoint_iterator<z_cfg_ref_t, wrapped_t> bwd_t;
typedef crab::analyzer::live_and_dead_analysis<z_cfg_ref_t> live_t;

std::string PROP;
bool th = false;

// ---- tick budget (hook H2) ---------------------------------------------------
struct budget_exceeded {};
long long g_ticks = 0, g_budget = 20000, g_max_ticks = 0;
void tick() {
  if (++g_ticks > g_budget) throw budget_exceeded();
}

// ---- domains -------------------------------------------------------------------
struct DomCfg {
  const DomEntry *e;
  Config cfg;
};
std::vector<DomCfg> DOMS;
wrapped_t top_of(const DomEntry &e) {
  std::unique_ptr<DomBox> b = e.make_top_wrapped();
  return static_cast<BoxImpl<wrapped_t> *>(b.get())->m_val;
}

// ---- membership ------------------------------------------------------------------
struct Obs {
  bool bottom = false;
  std::vector<Itv> at;
  std::vector<LinCst> csts;
  std::vector<std::vector<LinCst>> dcsts;
  bool dfalse = false;
  std::string print;
};
std::vector<int> TRACK = {VX, VY};

Obs observe(const wrapped_t &inv) {
  Obs o;
  BoxImpl<wrapped_t> box(inv);
  o.bottom = box.is_bottom();
  o.print = box.print();
  if (o.bottom) return o;
  for (int v : TRACK) o.at.push_back(box.at(v));
  o.csts = box.csts();
  try {
    box.dcsts(o.dcsts, o.dfalse);
  } catch (std::runtime_error &) { // optional export, "not implemented" in some domains
    o.dcsts.clear();
    o.dfalse = false;
  }
  return o;
}
std::string member_clause(const Obs &o, const Val &s, std::string &extra) {
  if (o.bottom) return "M4:bottom-but-reached";
  for (auto &c : o.csts)
    if (!c.big && !c.holds(s.v.data())) { extra = c.str(); return "M1:exported-constraint-false"; }
  if (o.dfalse) return "M2:disjunctive-system-false";
  if (!o.dcsts.empty()) {
    bool any = false;
    for (auto &conj : o.dcsts) {
      bool all = true;
      for (auto &c : conj)
        if (!c.big && !c.holds(s.v.data())) { all = false; break; }
      if (all) { any = true; break; }
    }
    if (!any) return "M2:no-disjunct-holds";
  }
  for (size_t i = 0; i < TRACK.size(); i++)
    if (!o.at[i].contains(s.v[TRACK[i]])) { extra = std::string("at(") + var_name(TRACK[i]) + ")=" + o.at[i].str(); return "M3:interval-misses-value"; }
  return "";
}
std::string vstr(const Val &v) {
  std::string s = "{";
  for (int t : TRACK) s += std::string(var_name(t)) + "=" + std::to_string(v.v[t]) + ",";
  return s + "}";
}

// ---- program enumeration -------------------------------------------------------
std::vector<Stmt> ALPHA; // index 0 = no statement
bool WITH_BOOL = false, WITH_ASSERT = false;

Stmt mk(int kind) { Stmt s; s.kind = kind; return s; }
void build_alphabet(int tier) {
  ALPHA.clear();
  auto add = [&](Stmt s, const std::string &n) { s.name = n; ALPHA.push_back(s); };
  add(mk(-1), "skip");
  { Stmt s = mk(O_ASSIGN); s.v0 = VX; s.e = lin({}, 0); add(s, "x:=0"); }
  { Stmt s = mk(O_ASSIGN); s.v0 = VX; s.e = lin({{1, VX}}, 1); add(s, "x:=x+1"); }
  { Stmt s = mk(O_ASSIGN); s.v0 = VX; s.e = lin({{1, VY}}); add(s, "x:=y"); }
  { Stmt s = mk(O_ASSIGN); s.v0 = VY; s.e = lin({{1, VX}, {1, VY}}); add(s, "y:=x+y"); }
  { Stmt s = mk(S_HAVOC); s.v0 = VX; add(s, "havoc(x)"); }
  { Stmt s = mk(O_ASSUME); s.c = cst({{1, VX}}, -1, C_LEQ); add(s, "assume(x<=1)"); }
  { Stmt s = mk(O_ASSUME); s.c = cst({{-1, VX}}, 1, C_LEQ); add(s, "assume(x>=1)"); }
  { Stmt s = mk(O_ASSUME); s.c = cst({{1, VX}, {-1, VY}}, 0, C_LT); add(s, "assume(x<y)"); }
  if (tier >= 1) {
    { Stmt s = mk(O_ARITH_VK); s.a = 2; s.v0 = VX; s.v1 = VX; s.k = 2; add(s, "x:=x*2"); }
    { Stmt s = mk(O_ASSIGN); s.v0 = VX; s.e = lin({{1, VX}}, -1); add(s, "x:=x-1"); }
    { Stmt s = mk(O_ASSUME); s.c = cst({{1, VX}}, 0, C_DISEQ); add(s, "assume(x!=0)"); }
    { Stmt s = mk(O_ASSUME); s.c = cst({{1, VX}, {-1, VY}}, 0, C_EQ); add(s, "assume(x==y)"); }
    { Stmt s = mk(O_ASSIGN); s.v0 = VY; s.e = lin({}, 1); add(s, "y:=1"); }
  }
  if (tier >= 2) {
    { Stmt s = mk(O_ARITH_VK); s.a = 3; s.v0 = VX; s.v1 = VY; s.k = 2; add(s, "x:=y/2"); }
    { Stmt s = mk(O_ARITH_VK); s.a = 5; s.v0 = VX; s.v1 = VY; s.k = 2; add(s, "x:=y%2"); }
    { Stmt s = mk(O_BITW_VK); s.a = 0; s.v0 = VX; s.v1 = VX; s.k = 1; add(s, "x:=x&1"); }
    { Stmt s = mk(O_BITW_VK); s.a = 5; s.v0 = VX; s.v1 = VY; s.k = 1; add(s, "x:=y>>1"); }
    { Stmt s = mk(O_ARITH_VV); s.a = 2; s.v0 = VX; s.v1 = VX; s.v2 = VY; add(s, "x:=x*y"); }
    { Stmt s = mk(O_SELECT); s.v0 = VX; s.c = cst({{1, VY}}, 0, C_LEQ); s.e = lin({{1, VX}}, 1); s.e2 = lin({}, 0); add(s, "x:=ite(y<=0,x+1,0)"); }
    { Stmt s = mk(O_ASSUME); s.c = cst({{1, VX}, {-1, VY}}, 0, C_DISEQ); add(s, "assume(x!=y)"); }
    { Stmt s = mk(O_ASSIGN); s.v0 = VX; s.e = lin({{-1, VX}}); add(s, "x:=-x"); }
    { Stmt s = mk(S_UNREACH); add(s, "unreachable"); }
    { Stmt s = mk(O_ASSIGN); s.v0 = VY; s.e = lin({}, 0); add(s, "y:=0"); }
    { Stmt s = mk(O_SELECT); s.v0 = VX; s.c = cst({{1, VY}}, 0, C_LEQ); s.e = lin({}, 0); s.e2 = lin({{1, VX}}, 1); add(s, "x:=ite(y<=0,0,x+1)"); }
    { Stmt s = mk(O_ARITH_VK); s.a = 2; s.v0 = VX; s.v1 = VX; s.k = 0; add(s, "x:=x*0"); }
    { Stmt s = mk(O_ARITH_VK); s.a = 2; s.v0 = VX; s.v1 = VY; s.k = -1; add(s, "x:=y*-1"); }
    { Stmt s = mk(O_ARITH_VK); s.a = 1; s.v0 = VX; s.v1 = VX; s.k = 2; add(s, "x:=x-2"); }
    { Stmt s = mk(O_ARITH_VK); s.a = 3; s.v0 = VX; s.v1 = VX; s.k = -2; add(s, "x:=x/-2"); }
    { Stmt s = mk(O_ARITH_VK); s.a = 4; s.v0 = VX; s.v1 = VY; s.k = 2; add(s, "x:=y udiv 2"); }
    { Stmt s = mk(O_ARITH_VK); s.a = 6; s.v0 = VX; s.v1 = VY; s.k = 2; add(s, "x:=y urem 2"); }
    { Stmt s = mk(O_BITW_VK); s.a = 1; s.v0 = VX; s.v1 = VX; s.k = 1; add(s, "x:=x|1"); }
    { Stmt s = mk(O_BITW_VK); s.a = 3; s.v0 = VX; s.v1 = VX; s.k = 1; add(s, "x:=x<<1"); }
  }
  if (WITH_BOOL) {
    { Stmt s = mk(O_BOOL_ASSIGN_CST); s.v0 = VB1; s.c = cst({{1, VX}}, 0, C_LEQ); add(s, "b1:=(x<=0)"); }
    { Stmt s = mk(O_BOOL_ASSUME); s.v0 = VB1; s.a = 0; add(s, "assume(b1)"); }
    { Stmt s = mk(O_BOOL_ASSUME); s.v0 = VB1; s.a = 1; add(s, "assume(not b1)"); }
  }
  if (WITH_ASSERT) {
    { Stmt s = mk(S_ASSERT); s.c = cst({{1, VX}}, -1, C_LEQ); add(s, "assert(x<=1)"); }
    { Stmt s = mk(S_ASSERT); s.c = cst({{-1, VX}}, 0, C_LEQ); add(s, "assert(x>=0)"); }
    { Stmt s = mk(S_ASSERT); s.c = cst({{1, VX}, {-1, VY}}, 0, C_LEQ); add(s, "assert(x<=y)"); }
    if (WITH_BOOL) { Stmt s = mk(S_BOOL_ASSERT); s.v0 = VB1; add(s, "assert(b1)"); }
  }
}

// program = (n, edge bits, statement index per block [, second statement for block 1])
struct ProgId {
  int n;
  uint64_t edges;
  std::vector<int> st;  // first statement per block
  std::vector<int> st2; // optional second statement per block (0 = none)
  std::string spec() const {
    std::string s = std::to_string(n) + ":" + std::to_string(edges) + ":";
    for (size_t i = 0; i < st.size(); i++) s += (i ? "." : "") + std::to_string(st[i]);
    s += ":";
    for (size_t i = 0; i < st2.size(); i++) s += (i ? "." : "") + std::to_string(st2[i]);
    return s;
  }
};
GProg make_prog(const ProgId &id) {
  GProg p;
  p.blocks.resize(id.n);
  for (int u = 0; u < id.n; u++) {
    for (int v = 0; v < id.n; v++)
      if ((id.edges >> (u * id.n + v)) & 1) p.blocks[u].succ.push_back(v);
    for (int which = 0; which < 2; which++) {
      int si = which == 0 ? id.st[u] : (id.st2.empty() ? 0 : id.st2[u]);
      if (si <= 0) continue;
      Stmt s = ALPHA[si];
      if (s.kind == S_ASSERT || s.kind == S_BOOL_ASSERT) s.a = u * 10 + which + 1; // unique assertion id
      p.blocks[u].stmts.push_back(s);
    }
  }
  // exit block: the last block when it has no successors
  if (p.blocks[id.n - 1].succ.empty()) p.exit = id.n - 1;
  return p;
}

// ---- fixpoint parameter menus -----------------------------------------------------
struct FP { unsigned delay, desc, thr; bool live; };
std::vector<FP> fp_menu() {
  if (th)
    return {{2, 1, 0, false}, {1, 0, 0, false}, {0, 2, 3, false}, {4, 1, 1, true}, {0, 0, 0, true}, {2, 2, 0, true}, {1, 1, 3, false}};
  return {{2, 1, 0, false}, {0, 2, 3, true}, {1, 0, 0, false}};
}
std::string fpstr(const FP &f) {
  return "delay=" + std::to_string(f.delay) + ",desc=" + std::to_string(f.desc) + ",thr=" + std::to_string(f.thr) + ",live=" + std::to_string(f.live);
}

struct Init {
  std::string name;
  std::vector<LinCst> csts;
};
std::vector<Init> init_menu() {
  std::vector<Init> r;
  r.push_back({"top", {}});
  r.push_back({"x==0", {cst({{1, VX}}, 0, C_EQ)}});
  if (th) r.push_back({"x>=0,y<=1", {cst({{-1, VX}}, 0, C_LEQ), cst({{1, VY}}, -1, C_LEQ)}});
  return r;
}
wrapped_t make_init(const DomEntry &e, const Init &in) {
  wrapped_t v = top_of(e);
  lsys_t s;
  for (auto &c : in.csts) s += to_lcst(c);
  if (!in.csts.empty()) v += s;
  return v;
}

long long n_programs = 0, n_analyses = 0, n_states = 0, n_steps = 0, n_member = 0, n_loops = 0, n_widened = 0, n_nonbottom_blocks = 0,
          n_assert_programs = 0, n_safe = 0, n_unreach = 0, n_warn = 0, n_skipped = 0;
std::set<uint64_t> distinct_inv;

void report(const std::string &dom, const std::string &clause, const std::string &spec, const std::string &detail) {
  vp::viol(dom + ":" + clause, spec, detail);
}

bool has_cycle(const GProg &p) {
  int n = (int)p.blocks.size();
  std::vector<std::vector<bool>> r(n, std::vector<bool>(n, false));
  for (int u = 0; u < n; u++)
    for (int v : p.blocks[u].succ) r[u][v] = true;
  for (int k = 0; k < n; k++)
    for (int i = 0; i < n; i++)
      for (int j = 0; j < n; j++)
        if (r[i][k] && r[k][j]) r[i][j] = true;
  for (int i = 0; i < n; i++)
    if (r[i][i]) return true;
  return false;
}


// true iff some assertion sits in a block from which the exit block is unreachable (known finding
// F-BWD-EXIT: such blocks are invisible to the backward analysis, which walks the reversed CFG from the exit)
bool assert_block_cannot_reach_exit(const GProg &p) {
  int n = (int)p.blocks.size();
  if (p.exit < 0) return true;
  std::vector<bool> reach(n, false);
  reach[p.exit] = true;
  bool ch = true;
  while (ch) {
    ch = false;
    for (int u = 0; u < n; u++)
      if (!reach[u])
        for (int v : p.blocks[u].succ)
          if (reach[v]) { reach[u] = true; ch = true; break; }
  }
  for (int u = 0; u < n; u++)
    if (!reach[u])
      for (auto &s : p.blocks[u].stmts)
        if (s.kind == S_ASSERT || s.kind == S_BOOL_ASSERT) return true;
  return false;
}

// one program: concrete exploration once, then every analysis configuration
void run_program(const ProgId &id, const std::string &only_dom) {
  GProg gp = make_prog(id);
  std::string spec = id.spec();
  vp::set_case(spec);
  std::unique_ptr<z_cfg_t> cfg;
  try {
    cfg = build_cfg(gp);
  } catch (std::runtime_error &e) {
    report("cfg", "abort-building-cfg", spec, gp.str() + " : " + e.what());
    return;
  }
  PProg pp = decompile(*cfg);
  if (!pp.ok) { n_skipped++; return; }
  z_cfg_ref_t ref(*cfg);
  bool loops = has_cycle(gp);
  bool has_assert = false;
  for (auto &b : gp.blocks)
    for (auto &s : b.stmts)
      if (s.kind == S_ASSERT || s.kind == S_BOOL_ASSERT) has_assert = true;
  if (PROP == "C02" && !has_assert) return;
  if (PROP == "C05" && !loops) return;
  n_programs++;
  if (loops) n_loops++;
  if (has_assert) n_assert_programs++;

  std::vector<Init> inits = init_menu();
  std::vector<FP> fps = fp_menu();
  // quick tier of the two-statement job over the large alphabet: default fixpoint parameters only
  if (!th && vp::args().opt.count("second")) fps.resize(1);
  for (auto &in : inits) {
    // concrete exploration from every initial state described by `in`
    ExploreCfg ec;
    ec.horizon = th ? 14 : 10;
    ec.vars = {VX, VY};
    ec.bools = WITH_BOOL;
    std::vector<Val> starts, filtered;
    initial_states(ec, starts);
    for (auto &s : starts) {
      bool ok = true;
      for (auto &c : in.csts) ok = ok && c.holds(s.v.data());
      if (ok) filtered.push_back(s);
    }
    Concrete R;
    if (PROP != "C05") {
      explore(pp, pp.entry, filtered, ec, R);
      n_states += R.states;
      n_steps += R.steps;
    }
    for (auto &dc : DOMS) {
      if (!only_dom.empty() && dc.e->name != only_dom) continue;
      if (WITH_BOOL && !(dc.e->caps & CAP_BOOL)) continue;
      apply_config(dc.cfg);
      for (auto &fp : fps) {
        std::string ctx = "[" + dc.e->name + " " + dc.cfg.name + " " + fpstr(fp) + " init=" + in.name + "] " + gp.str();
        std::string cspec = spec + "|" + dc.e->name + "|" + dc.cfg.name;
        crab::fixpoint_parameters params;
        params.get_widening_delay() = fp.delay;
        params.get_descending_iterations() = fp.desc;
        params.get_max_thresholds() = fp.thr;
        try {
          wrapped_t top = top_of(*dc.e);
          wrapped_t init = make_init(*dc.e, in);
          std::unique_ptr<live_t> live;
          if (fp.live) {
            live.reset(new live_t(ref));
            live->exec();
          }
          g_ticks = 0;
          fwd_t a(ref, top, live.get(), params);
          a.run(init);
          n_analyses++;
          g_max_ticks = std::max(g_max_ticks, g_ticks);
          if (g_ticks > (long long)fp.delay + 1) n_widened++;
          if (PROP == "C05") continue; // only termination is judged
          if (PROP == "C01" || PROP == "C02") {
            // C01: every concrete state at block entry / exit is described
            bool bad = false;
            for (size_t b = 0; b < pp.blocks.size() && !bad; b++) {
              for (int side = 0; side < 2 && !bad; side++) {
                const std::set<Val> &S = side == 0 ? R.pre[b] : R.post[b];
                if (S.empty()) continue;
                wrapped_t inv = side == 0 ? a.get_pre(pp.blocks[b].label) : a.get_post(pp.blocks[b].label);
                Obs o = observe(inv);
                if (!o.bottom) n_nonbottom_blocks++;
                if (side == 0 && b == pp.blocks.size() - 1) distinct_inv.insert(vp::fnv(dc.e->name + o.print));
                // with liveness pruning, dead variables are forgotten at block exit: still sound
                for (auto &s : S) {
                  n_member++;
                  std::string extra, cl = member_clause(o, s, extra);
                  if (!cl.empty()) {
                    if (PROP == "C01")
                      report(dc.e->name, std::string(side == 0 ? "pre:" : "post:") + cl, cspec,
                             ctx + " => " + (side == 0 ? "PRE(" : "POST(") + pp.blocks[b].label + ") = " + o.print + " misses reachable state " + vstr(s) + " " + extra);
                    bad = true;
                    break;
                  }
                }
              }
            }
            if (bad && PROP == "C02") continue; // verdicts built on an unsound invariant are reported by C01
          }
          if (PROP == "C02" && has_assert) {
            // (a) forward analysis + assertion checker
            typedef crab::checker::intra_checker<fwd_t> checker_t;
            typedef crab::checker::assert_property_checker<fwd_t> assert_chk_t;
            // twice: the assertion checker alone, and after another property checker (all checkers of an intra_checker share
            // one abstract transformer, which must be reset per checker)
            typedef crab::checker::div_zero_property_checker<fwd_t> div_chk_t;
            for (int second = 0; second < 2; second++) {
              typename checker_t::prop_checker_ptr pc(new assert_chk_t(0));
              typename checker_t::prop_checker_ptr pd(new div_chk_t(0));
              std::vector<typename checker_t::prop_checker_ptr> pcs;
              if (second) pcs.push_back(pd);
              pcs.push_back(pc);
              checker_t chk(a, pcs);
              chk.run();
              crab::checker::checks_db db = pc->get_db(); // the assertion checker's own verdicts
              const std::string tag = second ? "fwd-checker:after-div-zero-checker:" : "fwd-checker:";
              for (auto &kv : db.get_all_checks()) {
                int aid = (int)kv.first.get_id();
                for (auto k : kv.second) {
                  if (k == crab::checker::check_kind::CRAB_SAFE) {
                    n_safe++;
                    if (R.violated.count(aid))
                      report(dc.e->name, tag + "safe-but-violated", cspec, ctx + " => assertion #" + std::to_string(aid) + " reported SAFE but some execution violates it");
                  } else if (k == crab::checker::check_kind::CRAB_UNREACH) {
                    n_unreach++;
                    if (R.reached.count(aid))
                      report(dc.e->name, tag + "unreachable-but-reached", cspec, ctx + " => assertion #" + std::to_string(aid) + " reported UNREACHABLE but some execution reaches it");
                  } else
                    n_warn++;
                }
              }
            }
            // (b) forward+backward analyzer with every fwd_bwd parameter setting
            // quick tier: the forward+backward analyzer runs with the default fixpoint parameters only
            if ((dc.e->caps & CAP_BACKWARD) && (th || &fp == &fps[0])) {
              for (int eb = 0; eb < 2; eb++)
                for (unsigned mr : {0u, 1u, 5u})
                  for (int ur = 0; ur < 2; ur++) {
                    if (!th && (mr == 1 || (eb == 0 && (mr != 5 || ur != 0)))) continue;
                    crab::analyzer::fwd_bwd_parameters fb;
                    fb.enable_backward() = eb;
                    fb.get_max_refine_iterations() = mr;
                    fb.get_use_refined_invariants() = ur;
                    g_ticks = 0;
                    fwdbwd_t F(ref, top);
                    typename fwdbwd_t::assumption_map_t noassume;
                    F.run(init, noassume, live.get(), params, fb);
                    n_analyses++;
                    g_max_ticks = std::max(g_max_ticks, g_ticks);
                    typedef crab::checker::intra_checker<fwdbwd_t> checker2_t;
                    typedef crab::checker::assert_property_checker<fwdbwd_t> assert_chk2_t;
                    typename checker2_t::prop_checker_ptr pc2(new assert_chk2_t(0));
                    checker2_t chk2(F, {pc2});
                    chk2.run();
                    crab::checker::checks_db db2 = chk2.get_all_checks();
                    std::string fbs = " fwd_bwd(backward=" + std::to_string(eb) + ",refine=" + std::to_string(mr) + ",use_refined=" + std::to_string(ur) + ")";
                    for (auto &kv : db2.get_all_checks()) {
                      int aid = (int)kv.first.get_id();
                      for (auto k : kv.second) {
                        if (k == crab::checker::check_kind::CRAB_SAFE) {
                          n_safe++;
                          if (R.violated.count(aid))
                            report(dc.e->name, std::string("fwdbwd-checker:safe-but-violated") + (eb ? ":backward" : ":forward-only") +
                                       (eb && assert_block_cannot_reach_exit(gp) ? ":assert-in-block-not-reaching-exit" : ""), cspec,
                                   ctx + fbs + " => assertion #" + std::to_string(aid) + " reported SAFE but some execution violates it");
                        } else if (k == crab::checker::check_kind::CRAB_UNREACH) {
                          n_unreach++;
                          if (R.reached.count(aid))
                            report(dc.e->name, std::string("fwdbwd-checker:unreachable-but-") + (R.violated.count(aid) ? "violated" : "reached-safe") +
                                       (eb ? ":backward" : ":forward-only") + (ur ? ":use-refined" : "") +
                                       (eb && R.violated.count(aid) && assert_block_cannot_reach_exit(gp) ? ":assert-in-block-not-reaching-exit" : ""), cspec,
                                   ctx + fbs + " => assertion #" + std::to_string(aid) + " reported UNREACHABLE but some execution reaches it");
                        } else
                          n_warn++;
                      }
                    }
                  }
            }
          }
        } catch (budget_exceeded &) {
          report(dc.e->name, "C05:tick-budget-exceeded", cspec, ctx + " => more than " + std::to_string(g_budget) + " fixpoint iterations");
        } catch (std::runtime_error &e) {
          report(dc.e->name, "abort", cspec, ctx + " => analysis aborts: " + e.what());
        }
      }
    }
    if (vp::want_sample() && loops && id.n == 3 && !R.post.empty() && R.states > 10)
      vp::sample(gp.str() + " init=" + in.name + " : " + std::to_string(R.states) + " concrete states, " + std::to_string(DOMS.size()) + " domains x " + std::to_string(fps.size()) + " parameter tuples");
  }
}


// ---- C06 (real-domain clause): no extrapolation within widening_delay ---------------------
// Reference = the same engine with an unreachable delay (join only, no narrowing); T = number of
// cycle iterations it needed. With widening_delay >= T no widening may happen, so the results must
// be identical; when the program has exactly one simple cycle (one head, entered once) the join-only
// sequence needs N = T-1 non-stable iterations and widening_delay = N is the exact boundary.
bool single_simple_cycle(const GProg &p) {
  int n = (int)p.blocks.size();
  std::vector<std::vector<bool>> r(n, std::vector<bool>(n, false));
  for (int u = 0; u < n; u++)
    for (int v : p.blocks[u].succ) r[u][v] = true;
  std::vector<std::vector<bool>> c = r;
  for (int k = 0; k < n; k++)
    for (int i = 0; i < n; i++)
      for (int j = 0; j < n; j++)
        if (c[i][k] && c[k][j]) c[i][j] = true;
  std::vector<int> cyc;
  for (int i = 0; i < n; i++)
    if (c[i][i]) cyc.push_back(i);
  if (cyc.empty()) return false;
  for (int u : cyc) {
    int outs = 0, ins = 0;
    for (int v : cyc) {
      if (!(c[u][v] && c[v][u])) return false; // two different cycles
      if (r[u][v]) outs++;
      if (r[v][u]) ins++;
    }
    if (outs != 1 || ins != 1) return false;
  }
  return true;
}
long long n_c06_ref = 0, n_c06_cmp = 0, n_c06_diverge = 0, n_c06_boundary = 0;
void run_c06(const ProgId &id, const std::string &only_dom) {
  GProg gp = make_prog(id);
  if (!has_cycle(gp)) return;
  std::string spec = id.spec();
  vp::set_case(spec);
  std::unique_ptr<z_cfg_t> cfg = build_cfg(gp);
  PProg pp = decompile(*cfg);
  if (!pp.ok) return;
  z_cfg_ref_t ref(*cfg);
  n_programs++;
  bool simple = single_simple_cycle(gp);
  for (auto &in : init_menu()) {
    for (auto &dc : DOMS) {
      if (!only_dom.empty() && dc.e->name != only_dom) continue;
      apply_config(dc.cfg);
      std::string ctx = "[" + dc.e->name + " " + dc.cfg.name + " init=" + in.name + "] " + gp.str();
      std::string cspec = spec + "|" + dc.e->name + "|" + dc.cfg.name;
      try {
        wrapped_t top = top_of(*dc.e);
        wrapped_t init = make_init(*dc.e, in);
        crab::fixpoint_parameters pr;
        pr.get_widening_delay() = 1000000;
        pr.get_descending_iterations() = 0;
        pr.get_max_thresholds() = 0;
        long long saved_budget = g_budget;
        g_budget = 60;
        g_ticks = 0;
        fwd_t R(ref, top, nullptr, pr);
        bool diverges = false;
        try {
          R.run(init);
        } catch (budget_exceeded &) {
          diverges = true;
        }
        g_budget = saved_budget;
        n_analyses++;
        if (diverges) { n_c06_diverge++; continue; } // the join-only iteration does not stabilise: nothing is claimed
        n_c06_ref++;
        long long T = g_ticks;
        std::vector<long long> delays = {T, T + 3};
        if (simple && T >= 1) { delays.push_back(T - 1); n_c06_boundary++; }
        for (long long d : delays) {
          for (unsigned thr : {0u, 3u}) {
            crab::fixpoint_parameters pd;
            pd.get_widening_delay() = (unsigned)d;
            pd.get_descending_iterations() = 0;
            pd.get_max_thresholds() = thr;
            g_ticks = 0;
            fwd_t A(ref, top, nullptr, pd);
            A.run(init);
            n_analyses++;
            n_c06_cmp++;
            for (auto &b : pp.blocks) {
              for (int side = 0; side < 2; side++) {
                wrapped_t x = side == 0 ? A.get_pre(b.label) : A.get_post(b.label);
                wrapped_t y = side == 0 ? R.get_pre(b.label) : R.get_post(b.label);
                if (!(x <= y && y <= x)) {
                  BoxImpl<wrapped_t> bx(x), by(y);
                  report(dc.e->name, std::string("C06:extrapolation-within-delay") + (d == T - 1 ? ":boundary" : ""), cspec,
                         ctx + " => join-only iteration stabilises after " + std::to_string(T) + " cycle iterations, but with widening_delay=" + std::to_string(d) +
                             " thresholds=" + std::to_string(thr) + " " + (side == 0 ? "PRE(" : "POST(") + b.label + ") = " + bx.print() + " instead of " + by.print());
                  goto next_delay;
                }
              }
            }
          next_delay:;
          }
        }
      } catch (budget_exceeded &) {
        report(dc.e->name, "C05:tick-budget-exceeded", cspec, ctx);
      } catch (std::runtime_error &e) {
        report(dc.e->name, "abort", cspec, ctx + " => analysis aborts: " + e.what());
      }
    }
  }
}

// ---- C11: necessary preconditions --------------------------------------------------
// explicit concrete graph over (block, valuation-at-entry) nodes
struct CNode {
  std::vector<int> succ;      // node ids
  bool violates = false;      // some run of this block from this valuation fails an assertion
  std::vector<Val> exit_vals; // valuations at the end of the exit block (only for the exit block)
  bool can_violate = false, can_exit_good[3] = {false, false, false};
};
struct CGraph {
  std::map<std::pair<int, Val>, int> id;
  std::vector<std::pair<int, Val>> key;
  std::vector<CNode> nodes;
};
int cg_node(CGraph &g, int b, const Val &v) {
  auto k = std::make_pair(b, v);
  auto it = g.id.find(k);
  if (it != g.id.end()) return it->second;
  int n = (int)g.nodes.size();
  g.id[k] = n;
  g.key.push_back(k);
  g.nodes.push_back(CNode());
  return n;
}
void cg_build(CGraph &g, const PProg &p, const std::vector<std::pair<int, Val>> &roots, int horizon, const std::vector<long> &box) {
  std::vector<std::pair<int, int>> frontier; // (node, depth)
  std::set<int> expanded;
  for (auto &r : roots) frontier.push_back({cg_node(g, r.first, r.second), 0});
  StepOut so;
  while (!frontier.empty()) {
    std::vector<std::pair<int, int>> next;
    for (auto &fd : frontier) {
      int nid = fd.first, d = fd.second;
      if (!expanded.insert(nid).second) continue;
      int b = g.key[nid].first;
      std::vector<Val> cur = {g.key[nid].second};
      bool viol = false;
      for (auto &s : p.blocks[b].stmts) {
        std::vector<Val> nxt;
        for (auto &v : cur) {
          exec_stmt(s, v, so, box);
          if (so.assert_id >= 0 && !so.assert_ok) viol = true;
          nxt.insert(nxt.end(), so.next.begin(), so.next.end());
        }
        std::sort(nxt.begin(), nxt.end());
        nxt.erase(std::unique(nxt.begin(), nxt.end()), nxt.end());
        cur.swap(nxt);
        if (cur.empty()) break;
      }
      g.nodes[nid].violates = viol;
      if (b == p.exit) g.nodes[nid].exit_vals = cur;
      if (d + 1 > horizon) continue;
      for (auto &v : cur)
        for (int sb : p.blocks[b].succ) {
          int m = cg_node(g, sb, v);
          g.nodes[nid].succ.push_back(m);
          next.push_back({m, d + 1});
        }
    }
    frontier.swap(next);
  }
}

void run_c11(const ProgId &id, const std::string &only_dom) {
  GProg gp = make_prog(id);
  if (gp.exit < 0) return;
  std::string spec = id.spec();
  vp::set_case(spec);
  std::unique_ptr<z_cfg_t> cfg = build_cfg(gp);
  PProg pp = decompile(*cfg);
  if (!pp.ok) return;
  z_cfg_ref_t ref(*cfg);
  bool has_assert = false;
  for (auto &b : gp.blocks)
    for (auto &s : b.stmts)
      if (s.kind == S_ASSERT || s.kind == S_BOOL_ASSERT) has_assert = true;
  n_programs++;
  ExploreCfg ec;
  ec.vars = {VX, VY};
  std::vector<Val> box_vals;
  initial_states(ec, box_vals);
  // final good states at the exit: top, x<=0, x>=1
  std::vector<std::vector<LinCst>> finals = {{}, {cst({{1, VX}}, 0, C_LEQ)}, {cst({{-1, VX}}, 1, C_LEQ)}};
  for (int with_inv = 0; with_inv < 2; with_inv++) {
    // roots: without invariants every box state at every block; with (sound) forward invariants
    // computed from top at the entry, only executions from the entry are "consistent" for sure
    CGraph G;
    std::vector<std::pair<int, Val>> roots;
    if (with_inv)
      for (auto &v : box_vals) roots.push_back({pp.entry, v});
    else
      for (size_t b = 0; b < pp.blocks.size(); b++)
        for (auto &v : box_vals) roots.push_back({(int)b, v});
    cg_build(G, pp, roots, th ? 10 : 8, ec.box);
    n_states += (long long)G.nodes.size();
    // co-reachability (backward propagation to a fixpoint over the explicit graph)
    for (auto &n : G.nodes) {
      n.can_violate = n.violates;
      for (int f = 0; f < 3; f++)
        for (auto &v : n.exit_vals) {
          bool ok = true;
          for (auto &c : finals[f]) ok = ok && c.holds(v.v.data());
          if (ok) n.can_exit_good[f] = true;
        }
    }
    bool ch = true;
    while (ch) {
      ch = false;
      for (auto &n : G.nodes)
        for (int m : n.succ) {
          if (G.nodes[m].can_violate && !n.can_violate) { n.can_violate = true; ch = true; }
          for (int f = 0; f < 3; f++)
            if (G.nodes[m].can_exit_good[f] && !n.can_exit_good[f]) { n.can_exit_good[f] = true; ch = true; }
        }
    }
    for (auto &dc : DOMS) {
      if (!only_dom.empty() && dc.e->name != only_dom) continue;
      if (!(dc.e->caps & CAP_BACKWARD)) continue;
      apply_config(dc.cfg);
      crab::fixpoint_parameters params;
      std::string cspec = spec + "|" + dc.e->name + "|" + dc.cfg.name;
      try {
        wrapped_t top = top_of(*dc.e);
        std::unordered_map<std::string, wrapped_t> fwd_inv;
        if (with_inv) {
          fwd_t F(ref, top, nullptr, params);
          F.run(top);
          for (auto &b : pp.blocks) fwd_inv.insert({b.label, F.get_pre(b.label)});
        }
        // mode 0: error states (needs assertions); modes 1..3: good final states finals[mode-1]
        for (int mode = 0; mode < 4; mode++) {
          if (mode == 0 && !has_assert) continue;
          if (!th && mode == 3) continue;
          g_ticks = 0;
          bwd_t B(ref, top, mode != 0, params);
          wrapped_t post = top;
          if (mode == 0)
            post.set_to_bottom();
          else if (!finals[mode - 1].empty()) {
            lsys_t sys;
            for (auto &c : finals[mode - 1]) sys += to_lcst(c);
            post += sys;
          }
          if (with_inv) B.run_backward(post, fwd_inv); else B.run_backward(post);
          n_analyses++;
          std::string ctx = "[" + dc.e->name + " " + dc.cfg.name + (mode == 0 ? " error-mode" : " good-mode final#" + std::to_string(mode - 1)) +
                            (with_inv ? " with-forward-invariants" : " no-invariants") + "] " + gp.str();
          for (size_t b = 0; b < pp.blocks.size(); b++) {
            Obs o;
            bool have = false;
            for (size_t nid = 0; nid < G.nodes.size(); nid++) {
              if (G.key[nid].first != (int)b) continue;
              bool must = mode == 0 ? G.nodes[nid].can_violate : G.nodes[nid].can_exit_good[mode - 1];
              if (!must) continue;
              if (with_inv) {
                // only states at b that are reachable from the entry (hence inside the sound invariants)
              }
              if (!have) { o = observe(B[pp.blocks[b].label]); have = true; if (!o.bottom) n_nonbottom_blocks++; }
              n_member++;
              std::string extra, cl = member_clause(o, G.key[nid].second, extra);
              if (!cl.empty()) {
                report(dc.e->name, std::string(mode == 0 ? "bwd-error:" : "bwd-good:") + cl + (with_inv ? ":with-invariants" : "") +
                           (mode == 0 && assert_block_cannot_reach_exit(gp) ? ":assert-in-block-not-reaching-exit" : ""), cspec,
                       ctx + " => precondition at " + pp.blocks[b].label + " = " + o.print + " excludes " + vstr(G.key[nid].second) +
                           (mode == 0 ? " from which an execution goes on to violate an assertion " : " from which an execution reaches the exit in a good final state ") + extra);
                break;
              }
            }
          }
        }
      } catch (budget_exceeded &) {
        report(dc.e->name, "C05:tick-budget-exceeded", cspec, gp.str());
      } catch (std::runtime_error &e) {
        report(dc.e->name, "abort", cspec, gp.str() + " => backward analysis aborts: " + e.what());
      }
    }
  }
}

void enumerate(int n, int nalpha, uint64_t &caseno, const std::string &only_dom, bool second_stmt) {
  uint64_t nst = 1;
  for (int i = 0; i < n; i++) nst *= nalpha;
  for (uint64_t edges = 0; edges < (1ULL << (n * n)); edges++) {
    for (uint64_t sc = 0; sc < nst; sc++) {
      if (!vp::mine(caseno++)) continue;
      static uint64_t mine_count = 0;
      if ((++mine_count & 0x3) == 0 && vp::past_deadline()) {
        vp::incomplete("n=" + std::to_string(n) + " cut at edges=" + std::to_string(edges));
        return;
      }
      ProgId id;
      id.n = n;
      id.edges = edges;
      uint64_t t = sc;
      for (int i = 0; i < n; i++) {
        id.st.push_back((int)(t % nalpha));
        t /= nalpha;
      }
      if (PROP == "C06") { run_c06(id, only_dom); continue; }
      if (PROP == "C11") {
        run_c11(id, only_dom);
        if (second_stmt && id.st[n > 1 ? 1 : 0] != 0)
          for (int s2 = 1; s2 < nalpha; s2++) {
            ProgId id2 = id;
            id2.st2.assign(n, 0);
            id2.st2[n > 1 ? 1 : 0] = s2;
            run_c11(id2, only_dom);
          }
        continue;
      }
      run_program(id, only_dom);
      if (second_stmt) {
        // family F2: block 0 (and the last block) get a second statement from the core alphabet
        const bool full = vp::args().opt.count("second") > 0; // --second 1: the second statement ranges over the whole alphabet
        for (int s2 = 1; s2 < (full ? nalpha : std::min(nalpha, 9)); s2++) {
          ProgId id2 = id;
          id2.st2.assign(n, 0);
          id2.st2[n > 1 ? 1 : 0] = s2;
          if (id2.st[n > 1 ? 1 : 0] == 0) continue; // second statement only after a first one
          run_program(id2, only_dom);
        }
      }
    }
  }
}

} // namespace

int main(int argc, char **argv) {
  vp::parse_args(argc, argv);
  vp::install_crash_handler();
  quiet_crab();
  crab::verif::tick_hook() = &tick;
  PROP = vp::args().check;
  th = vp::args().thorough();
  std::string family = vp::args().opt.count("family") ? vp::args().opt["family"] : "num";
  std::string only = vp::args().opt.count("domains") ? vp::args().opt["domains"] : "";
  WITH_BOOL = family == "bool";
  WITH_ASSERT = PROP == "C02" || PROP == "C11";
  if (WITH_BOOL) TRACK = {VX, VY, VB1};
  // domains in scope for program-level checks
  std::vector<std::string> names;
  if (WITH_BOOL)
    names = {"bool_int", "bool_sparse_dbm"};
  else if (th)
    names = {"intervals", "constants", "signs", "sign_constants", "ric", "sparse_dbm", "split_dbm", "split_oct", "dis_intervals", "term_int",
             "term_sdbm", "term_dis", "uf", "num_product", "value_partitioning", "lookahead_soct", "packing_sdbm", "bool_int", "as_int", "aa_int", "rgn_int"};
  else
    names = {"intervals", "ric", "split_dbm", "split_oct", "dis_intervals", "term_int", "sign_constants", "constants"};
  if (PROP == "C02" && !th && !WITH_BOOL) names = {"intervals", "split_dbm", "split_oct", "dis_intervals", "ric"};
  if (PROP == "C06") names = {"intervals", "sign_constants", "ric", "split_dbm", "dis_intervals", "constants"};
  if (PROP == "C11") names = {"intervals", "sparse_dbm", "split_dbm", "split_oct", "bool_int", "aa_int"};
  for (auto &n : names) {
    if (!only.empty() && ("," + only + ",").find("," + n + ",") == std::string::npos) continue;
    const DomEntry *e = find_domain(n);
    if (!e) continue;
    const std::vector<Config> &cfgs = th ? e->configs_thorough : e->configs_quick;
    // program-level runs use the default configuration plus (thorough) every other one for the graph domains
    for (size_t i = 0; i < cfgs.size(); i++) {
      if (!th && i > 0) break;
      if (th && i > 0 && n != "split_dbm" && n != "split_oct") break;
      DOMS.push_back({e, cfgs[i]});
    }
  }
  if (vp::args().opt.count("budget")) g_budget = atoll(vp::args().opt["budget"].c_str());
  int tier = vp::args().opt.count("alpha") ? atoi(vp::args().opt["alpha"].c_str()) : (th ? 1 : 0);

  if (!vp::args().replay.empty()) {
    // spec: n:edges:st:st2|dom|cfg   (alphabet tier recorded in the job arguments)
    auto parts = vp::split(vp::args().replay, '|');
    auto f = vp::split(parts[0], ':');
    build_alphabet(tier);
    ProgId id;
    id.n = atoi(f[0].c_str());
    id.edges = strtoull(f[1].c_str(), 0, 10);
    for (auto &t : vp::split(f[2], '.')) id.st.push_back(atoi(t.c_str()));
    if (f.size() > 3 && !f[3].empty())
      for (auto &t : vp::split(f[3], '.')) id.st2.push_back(atoi(t.c_str()));
    if (PROP == "C11") run_c11(id, parts.size() > 1 ? parts[1] : "");
    else if (PROP == "C06") run_c06(id, parts.size() > 1 ? parts[1] : "");
    else run_program(id, parts.size() > 1 ? parts[1] : "");
    vp::finish();
    return 0;
  }

  build_alphabet(tier);
  uint64_t caseno = 0;
  int nalpha = (int)ALPHA.size();
  int maxn = vp::args().opt.count("maxn") ? atoi(vp::args().opt["maxn"].c_str()) : 3;
  for (int n = 1; n <= maxn; n++) enumerate(n, nalpha, caseno, "", (n == 2 && tier == 0) || (n <= 2 && vp::args().opt.count("second")));

  vp::stat("programs", n_programs);
  vp::stat("states", n_states + n_programs);
  vp::stat("transitions", n_steps + n_analyses);
  vp::stat("traces_validated_against_impl", n_analyses);
  vp::stat("evaluations", n_analyses);
  vp::stat("member_checks", n_member);
  vp::stat("programs_with_cycles", n_loops);
  if (PROP == "C06") {
    vp::stat("join_only_references", n_c06_ref);
    vp::stat("join_only_diverges_skipped", n_c06_diverge);
    vp::stat("delay_runs_compared", n_c06_cmp);
    vp::stat("exact_boundary_cases", n_c06_boundary);
  }
  vp::stat("analyses_needing_extrapolation", n_widened);
  vp::stat("nonbottom_block_invariants", n_nonbottom_blocks);
  vp::stat("programs_with_assertions", n_assert_programs);
  vp::stat("verdict_safe", n_safe);
  vp::stat("verdict_unreachable", n_unreach);
  vp::stat("verdict_warning", n_warn);
  vp::stat("skipped_undecompilable", n_skipped);
  vp::stat("distinct_nontrivial", (long long)distinct_inv.size());
  vp::statmax("max_fixpoint_ticks", g_max_ticks);
  vp::finish();
  return 0;
}
