#!/usr/bin/env python3
"""Reference oracle for C20: recomputes every ROW printed by c20_numbers with
Python integers / Fractions (independent of GMP) and emits VIOL records for
mismatches. Every other protocol line is passed through unchanged."""
import sys
from fractions import Fraction

I64_MIN, I64_MAX = -(1 << 63), (1 << 63) - 1


def tdiv(a, b):
    q = abs(a) // abs(b)
    return q if (a >= 0) == (b >= 0) else -q


def trem(a, b):
    return a - b * tdiv(a, b)


def cmpbits(a, b):
    return "".join("1" if t else "0" for t in
                   (a == b, a != b, a < b, a <= b, a > b, a >= b))


def fill_ones(a):
    return 0 if a == 0 else (1 << a.bit_length()) - 1


def q_of(s):
    n, d = s.split("/")
    return Fraction(int(n), int(d))


def qs(f):
    return "%d/%d" % (f.numerator, f.denominator)


def expected(ty, op, a, b):
    """returns the expected result string, or a predicate, or None (skip)"""
    if ty == "z":
        x = int(a)
        y = int(b) if b not in ("",) else None
        if op == "str":
            return str(x)
        if op == "str16":
            return ("-" if x < 0 else "") + format(abs(x), "x")
        if op == "neg":
            return str(-x)
        if op == "preinc":
            return str(x + 1)
        if op == "predec":
            return str(x - 1)
        if op == "postinc":
            return "%d,%d" % (x, x + 1)
        if op == "postdec":
            return "%d,%d" % (x, x - 1)
        if op == "fits_int64":
            return "1" if I64_MIN <= x <= I64_MAX else "0"
        if op in ("to_int64", "safe_i64_ctor"):
            if I64_MIN <= x <= I64_MAX:
                return str(x)
            return lambda r: r.startswith("ABORT:")
        if op == "fill_ones":
            return str(fill_ones(x))
        if op == "copy_move":
            return "%d,%d" % (x, x)
        if op == "hash_eq":
            return "1"
        if op == "raw_roundtrip":
            return "%d,%d" % (x, x)
        if op in ("from_int64", "from_uint64"):
            return str(x)
        if op == "shl":
            return str(x << y)
        if op == "shr":
            return str(x >> y)  # floor
        if op in ("add", "add_assign"):
            return str(x + y)
        if op in ("sub", "sub_assign"):
            return str(x - y)
        if op in ("mul", "mul_assign"):
            return str(x * y)
        if op in ("div", "div_assign"):
            return str(tdiv(x, y))
        if op in ("rem", "rem_assign"):
            return str(trem(x, y))
        if op == "and":
            return str(x & y)
        if op == "or":
            return str(x | y)
        if op == "xor":
            return str(x ^ y)
        if op == "cmp":
            return cmpbits(x, y)
    if ty == "s":  # checked int64: exact or abort, never wrapped
        x = int(a)
        y = int(b) if b != "" else None
        if op == "cmp":
            return cmpbits(x, y)
        if op == "neg":
            r = -x
        elif op in ("add", "add_assign"):
            r = x + y
        elif op in ("sub", "sub_assign"):
            r = x - y
        elif op == "mul":
            r = x * y
        elif op == "div":
            r = tdiv(x, y)
        else:
            return None
        if I64_MIN <= r <= I64_MAX:
            return str(r)
        return lambda res: res.startswith("ABORT:")
    if ty == "q":
        if op == "from_z":
            return qs(Fraction(int(a)))
        x = q_of(a)
        y = q_of(b) if b != "" else None
        if op == "canon":
            return qs(x)
        if op == "str":
            return str(x.numerator) if x.denominator == 1 else qs(x)
        if op == "neg":
            return qs(-x)
        if op == "floor":
            return str(x.numerator // x.denominator)
        if op == "ceil":
            return str(-((-x.numerator) // x.denominator))
        if op == "preinc":
            return qs(x + 1)
        if op == "predec":
            return qs(x - 1)
        if op == "from_str":
            return qs(x)
        if op in ("add", "add_assign"):
            return qs(x + y)
        if op in ("sub", "sub_assign"):
            return qs(x - y)
        if op in ("mul", "mul_assign"):
            return qs(x * y)
        if op in ("div", "div_assign"):
            return qs(x / y)
        if op == "cmp":
            return cmpbits(x, y)
    return None


def shape(s):
    """operand shape class used in the finding core"""
    try:
        if "/" in s:
            s = s.split("/")[0]
        v = int(s)
    except ValueError:
        return "?"
    a = abs(v)
    sg = "-" if v < 0 else ""
    if a == 0:
        return "0"
    if a < (1 << 31):
        return sg + "small"
    if a < (1 << 63):
        return sg + "int64"
    if a == (1 << 63):
        return sg + "2^63"
    if a < (1 << 64):
        return sg + "uint64"
    return sg + "big"


def main():
    rows = bad = nontriv = 0
    seen = {}
    names = {"z": "z_number", "q": "q_number", "s": "safe_i64"}
    out = sys.stdout
    for line in sys.stdin:
        if not line.startswith("ROW\t"):
            out.write(line)
            continue
        f = line.rstrip("\n").split("\t")
        while len(f) < 6:
            f.append("")
        _, ty, op, a, b, res = f[:6]
        rows += 1
        if res not in (a, b, "0", "1", "") and not res.startswith("ABORT"):
            nontriv += 1
        try:
            e = expected(ty, op, a, b)
        except Exception as ex:  # oracle bug: report loudly, not as a violation
            out.write("INCOMPLETE\toracle error on %s %s %s %s: %r\n" % (ty, op, a, b, ex))
            continue
        if e is None:
            continue
        ok = e(res) if callable(e) else (res == e)
        if not ok:
            bad += 1
            core = "%s.%s:wrong:%s,%s" % (names.get(ty, ty), op, shape(a), shape(b) if b else "")
            n = seen.get(core, 0)
            seen[core] = n + 1
            if n < 2:
                exp = "<abort>" if callable(e) else e
                out.write("VIOL\t%s\tnumbers\t%s %s(%s, %s) = %s expected %s\n" %
                          (core, names.get(ty, ty), op, a, b, res, exp))
    out.write("STAT\trows_checked\t%d\n" % rows)
    out.write("STAT\trow_mismatches\t%d\n" % bad)
    out.write("STAT\tdistinct_nontrivial\t%d\n" % nontriv)
    out.flush()


if __name__ == "__main__":
    main()
