// C09 / C10 — inter-procedural analyses against an exhaustive concrete oracle.
//
// Program space: main + f (+ g when referenced), built as real crab cfgs with
// function declarations and callsites, put in a real call_graph.  Variable
// names are shared between the functions on purpose (main, f and g all use
// x, y, z; f is f(x)->y, g is g(y)->x so that actuals/formals/outputs cross).
//
// Oracle: tabulation of the concrete call semantics over a finite value box:
// a context is (function, frame at entry); contexts are explored to a least
// fixpoint (results of a context only grow), which yields every terminating
// execution whose values stay inside the box, for every recursion depth.
// States of contexts reachable from an entry function are the "reachable
// states"; the results of every context (reached or not) are the concrete
// input/output pairs the summaries must describe.
//
//   C09: top_down_inter_analyzer, every parameter tuple
//   C10: bottom_up_inter_analyzer, every (summary domain, forward domain) pair
#include "common/member.hpp"

#include <crab/analysis/inter/bottom_up_inter_analyzer.hpp>
#include <crab/analysis/inter/top_down_inter_analyzer.hpp>
#include <crab/analysis/inter/top_down_inter_params.hpp>
#include <crab/checkers/assertion.hpp>
#include <crab/checkers/checker.hpp>
#include <crab/cg/cg.hpp>
#include <crab/cg/cg_bgl.hpp>
#include <crab/analysis/graphs/sccg_bgl.hpp>

using namespace vb;
using namespace vg;
using namespace vm;
using vh::cst;
using vh::lin;

namespace {

typedef crab::cg::call_graph<z_cfg_ref_t> cg_t;
typedef crab::analyzer::top_down_inter_analyzer<cg_t, wrapped_t> td_t;
typedef crab::analyzer::top_down_inter_analyzer_parameters<cg_t> td_params_t;
typedef crab::analyzer::bottom_up_inter_analyzer<cg_t, wrapped_t, wrapped_t> bu_t;
typedef crab::analyzer::inter_analyzer_parameters<cg_t> bu_params_t;

std::string PROP;
bool th = false;

struct budget_exceeded {};
long long g_ticks = 0, g_budget = 3000, g_max_ticks = 0; // each tick of a recursive function is a stack frame of the analyzer
void tick() {
  if (++g_ticks > g_budget) throw budget_exceeded();
}

// ---- inter-procedural program -----------------------------------------------------
struct IFunc {
  GProg body;            // has_decl, fname, inputs, outputs, exit
  std::vector<int> vars; // variables occurring in the function (its frame)
};
struct IProg {
  std::vector<IFunc> fs; // fs[0] = main
  std::string str() const {
    std::string s;
    for (auto &f : fs) {
      s += f.body.fname + "(";
      for (size_t i = 0; i < f.body.inputs.size(); i++) s += std::string(i ? "," : "") + var_name(f.body.inputs[i]);
      s += ")->(";
      for (size_t i = 0; i < f.body.outputs.size(); i++) s += std::string(i ? "," : "") + var_name(f.body.outputs[i]);
      s += ") { " + f.body.str() + "}  ";
    }
    return s;
  }
};

Stmt mk(int kind) { Stmt s; s.kind = kind; return s; }
Stmt skip() { return mk(-1); }
Stmt assign(int x, LinExp e) { Stmt s = mk(O_ASSIGN); s.v0 = x; s.e = e; return s; }
Stmt havoc(int x) { Stmt s = mk(S_HAVOC); s.v0 = x; return s; }
Stmt assume(LinCst c) { Stmt s = mk(O_ASSUME); s.c = c; return s; }
Stmt assertion(LinCst c, int id) { Stmt s = mk(S_ASSERT); s.c = c; s.a = id; return s; }
Stmt call(const std::string &f, int lhs, int arg) {
  Stmt s = mk(S_CALL);
  s.name = f;
  s.vars = {lhs};
  s.e = lin({{1, arg}});
  return s;
}
Stmt call2(const std::string &f, int lhs0, int lhs1, int arg0, int arg1) {
  Stmt s = mk(S_CALL);
  s.name = f;
  s.vars = {lhs0, lhs1};
  s.e = lin({{1, arg0}, {1, arg1}});
  return s;
}
bool is_skip(const Stmt &s) { return s.kind == -1; }

void collect_vars(IFunc &f) {
  std::set<int> vs(f.body.inputs.begin(), f.body.inputs.end());
  vs.insert(f.body.outputs.begin(), f.body.outputs.end());
  for (auto &b : f.body.blocks)
    for (auto &s : b.stmts) {
      if (s.v0 >= 0) vs.insert(s.v0);
      if (s.kind == O_ARITH_VK || s.kind == O_ARITH_VV) { if (s.v1 >= 0) vs.insert(s.v1); if (s.kind == O_ARITH_VV && s.v2 >= 0) vs.insert(s.v2); }
      for (auto &t : s.e.terms) vs.insert(t.second);
      if (s.kind == O_ASSUME || s.kind == S_ASSERT)
        for (auto &t : s.c.e.terms) vs.insert(t.second);
      for (int v : s.vars) vs.insert(v);
    }
  f.vars.assign(vs.begin(), vs.end());
}

// ---- alphabets ---------------------------------------------------------------------
std::vector<Stmt> M1, C1, M2, C2, AS, FS;
int NG = 0, NH = 0; // number of g / h bodies
void build_alphabets() {
  // main: x, y, z
  M1 = {assign(VX, lin({}, 0)), havoc(VX)};
  if (th) { M1.push_back(assign(VX, lin({}, 1))); M1.push_back(skip()); }
  C1 = {call("f", VY, VX), call("f", VX, VX), call("f", VX, VY), call("g", VY, VX)};
  if (th) { C1.push_back(call("g", VX, VY)); C1.push_back(call("f", VZ, VZ)); }
  M2 = {skip(), assign(VX, lin({{1, VX}}, 1)), assign(VX, lin({{1, VY}}))};
  if (th) { M2.push_back(assign(VY, lin({}, 0))); M2.push_back(assign(VZ, lin({{1, VY}}))); }
  C2 = {skip(), call("f", VY, VX), call("g", VX, VY), call("f", VY, VZ)};
  // h(v,i)->(z,w): two inputs, two outputs; outputs overwriting the arguments in both orders, swapped actuals,
  // call-site variables named like the callee's parameters
  C2.push_back(call2("h", VY, VX, VX, VY));
  C2.push_back(call2("h", VX, VY, VY, VX));
  C2.push_back(call2("h", VV, VI, VI, VV));
  // a formal (v) named like the actual of a *later* position, the other formal (i) not an actual at all: (y,x):=h(x,v)
  C2.push_back(call2("h", VY, VX, VX, VV));
  if (th) { C2.push_back(call2("h", VY, VX, VI, VX)); C2.push_back(call2("h", VY, VV, VY, VV)); }
  if (th) { C2.push_back(call("f", VX, VX)); C2.push_back(call("g", VY, VX)); C2.push_back(call("g", VZ, VZ));
            C2.push_back(call2("h", VI, VV, VV, VI)); C2.push_back(call2("h", VZ, VW, VX, VY)); C2.push_back(call2("h", VX, VZ, VZ, VX)); }
  AS = {skip(), assertion(cst({{1, VY}}, -1, C_LEQ), 1)};
  if (th) { AS.push_back(assertion(cst({{1, VX}, {-1, VY}}, 0, C_LEQ), 2)); AS.push_back(assertion(cst({{-1, VY}}, 1, C_LEQ), 3)); }
  // f(x) -> y, local z; the formal x is never assigned
  FS = {skip(), assign(VY, lin({{1, VX}})), assign(VY, lin({{1, VX}}, 1)), assign(VY, lin({}, 0)), assign(VZ, lin({{1, VX}}, -1)),
        call("f", VY, VZ), call("g", VY, VX)};
  // f also calls the two-output function h (a callee outside f's recursive component that main calls too)
  FS.push_back(call2("h", VZ, VY, VX, VX));
  // an assertion inside the callee: it is checked once per calling context, the verdicts of one location accumulate
  if (PROP == "C02" || PROP == "C09") FS.push_back(assertion(cst({{1, VX}}, 0, C_LEQ), 21));
  if (th) { FS.push_back(assign(VY, lin({{1, VY}}, 1))); FS.push_back(call("f", VY, VX)); FS.push_back(havoc(VY)); FS.push_back(assign(VY, lin({{1, VZ}}))); }
  NG = th ? 6 : 4;
  NH = th ? 4 : 2;
}

// h(v,i) -> (z,w)
IFunc make_h(int k) {
  IFunc h;
  GProg &p = h.body;
  p.has_decl = true;
  p.fname = "h";
  p.inputs = {VV, VI};
  p.outputs = {VZ, VW};
  p.blocks.resize(1);
  p.exit = 0;
  switch (k) {
  case 0: p.blocks[0].stmts = {assign(VZ, lin({{1, VV}}, 1)), assign(VW, lin({{1, VI}}, 2))}; break;
  case 1: p.blocks[0].stmts = {assign(VZ, lin({{1, VI}})), assign(VW, lin({{1, VV}}))}; break;
  case 2: p.blocks[0].stmts = {assign(VZ, lin({{1, VV}, {1, VI}})), call("f", VW, VV)}; break;
  default: p.blocks[0].stmts = {assume(cst({{1, VV}, {-1, VI}}, 0, C_LEQ)), assign(VZ, lin({{1, VV}})), havoc(VW), assume(cst({{1, VW}, {-1, VI}}, 0, C_LEQ))}; break;
  }
  return h;
}

// g(y) -> x, local z
IFunc make_g(int k) {
  IFunc g;
  GProg &p = g.body;
  p.has_decl = true;
  p.fname = "g";
  p.inputs = {VY};
  p.outputs = {VX};
  auto one = [&](std::vector<Stmt> ss) {
    p.blocks.resize(1);
    p.blocks[0].stmts = ss;
    p.exit = 0;
  };
  switch (k) {
  case 0: one({assign(VX, lin({{1, VY}}, 1))}); break;
  case 1: // direct recursion with a base case
    p.blocks.resize(4);
    p.blocks[0].succ = {1, 2};
    p.blocks[1].stmts = {assume(cst({{1, VY}}, 0, C_LEQ)), assign(VX, lin({}, 0))};
    p.blocks[1].succ = {3};
    p.blocks[2].stmts = {assume(cst({{-1, VY}}, 1, C_LEQ)), assign(VZ, lin({{1, VY}}, -1)), call("g", VX, VZ), assign(VX, lin({{1, VX}}, 1))};
    p.blocks[2].succ = {3};
    p.exit = 3;
    break;
  case 2: one({assign(VZ, lin({{1, VY}}, -1)), call("f", VX, VZ)}); break; // mutual recursion when f calls g
  case 3: one({havoc(VX), assume(cst({{1, VX}, {-1, VY}}, 0, C_LEQ))}); break;
  case 4: one({call("f", VX, VY)}); break;
  default: one({assign(VX, lin({}, 0))}); break;
  }
  return g;
}

struct ProgId {
  int m1, c1, m2, c2, as, loop; // main
  int fshape, s1, s2, s3;       // f
  int g;                        // -1: no g
  int h;                        // -1: no h
  int multi = 0;                // k>0: main is four calls y:=f(x) with x:=a,b,c,d from {-1,0,1} (k-1 = base-3 code of abcd)
  std::string spec() const {
    char buf[128];
    snprintf(buf, sizeof buf, "%d.%d.%d.%d.%d.%d:%d.%d.%d.%d:%d:%d", m1, c1, m2, c2, as, loop, fshape, s1, s2, s3, g, h);
    std::string r = buf;
    if (multi > 0) r += ":M" + std::to_string(multi);
    return r;
  }
};

bool mentions(const Stmt &s, const std::string &fn) { return s.kind == S_CALL && s.name == fn; }

IProg make_prog(const ProgId &id, bool &uses_g, bool &uses_h) {
  IProg P;
  IFunc m;
  {
    GProg &p = m.body;
    p.has_decl = true;
    p.fname = "main";
    p.blocks.resize(4);
    auto put = [&](int b, const Stmt &s) { if (!is_skip(s)) p.blocks[b].stmts.push_back(s); };
    if (id.multi > 0) {
      // repeated calls of the same function with different (disjoint) contexts: x:=a; y:=f(x); x:=b; y:=f(x); x:=c; y:=f(x); x:=d; y:=f(x)
      int code = id.multi - 1;
      for (int b = 0; b < 4; b++) {
        put(b, assign(VX, lin({}, code % 3 - 1)));
        put(b, call("f", VY, VX));
        code /= 3;
      }
      put(3, AS[id.as]);
    } else {
      put(0, M1[id.m1]);
      put(1, C1[id.c1]);
      put(2, M2[id.m2]);
      put(3, C2[id.c2]);
      put(3, AS[id.as]);
    }
    p.blocks[0].succ = {1};
    p.blocks[1].succ = {2};
    p.blocks[2].succ = {3};
    if (id.loop) p.blocks[2].succ = {1, 3};
    p.exit = 3;
  }
  IFunc f;
  {
    GProg &p = f.body;
    p.has_decl = true;
    p.fname = "f";
    p.inputs = {VX};
    p.outputs = {VY};
    int slot = 0; // every occurrence of the assertion gets its own id
    auto put = [&](int b, const Stmt &s0) {
      Stmt s = s0;
      slot++;
      if (s.kind == S_ASSERT) s.a = 20 + slot;
      if (!is_skip(s)) p.blocks[b].stmts.push_back(s);
    };
    if (id.fshape == 0) {
      p.blocks.resize(2);
      put(0, FS[id.s1]);
      put(1, FS[id.s2]);
      p.blocks[0].succ = {1};
      p.exit = 1;
    } else {
      p.blocks.resize(4);
      p.blocks[0].succ = {1, 2};
      p.blocks[1].stmts = {assume(cst({{1, VX}}, 0, C_LEQ))};
      put(1, FS[id.s1]);
      p.blocks[1].succ = {3};
      p.blocks[2].stmts = {assume(cst({{-1, VX}}, 1, C_LEQ))};
      put(2, FS[id.s2]);
      put(2, FS[id.s3]);
      p.blocks[2].succ = {3};
      p.exit = 3;
    }
  }
  uses_g = uses_h = false;
  for (auto *fn : {&m, &f})
    for (auto &b : fn->body.blocks)
      for (auto &s : b.stmts) {
        if (mentions(s, "g")) uses_g = true;
        if (mentions(s, "h")) uses_h = true;
      }
  P.fs.push_back(m);
  P.fs.push_back(f);
  if (id.g >= 0) P.fs.push_back(make_g(id.g));
  if (id.h >= 0) P.fs.push_back(make_h(id.h));
  for (auto &fn : P.fs) collect_vars(fn);
  return P;
}

// ---- concrete tabulation --------------------------------------------------------------
const long CLIP = 4;
const std::vector<long> BOX = {-1, 0, 1};

struct CtxInfo {
  std::set<std::vector<long>> results; // output tuples at the end of the exit block
  bool reached = false;
};
struct Oracle {
  std::vector<PProg> pp;
  std::map<std::string, int> fidx;
  std::map<std::pair<int, Val>, CtxInfo> ctx;
  // per function, per block: states at block entry / end, over contexts reached from an entry function
  std::vector<std::vector<std::set<Val>>> pre, post;
  std::map<int, bool> reached, violated;
  long long steps = 0;
  bool changed = false;
};

bool in_clip(const Val &v) {
  for (int i = VX; i <= VI; i++)
    if (v.v[i] > CLIP || v.v[i] < -CLIP) return false;
  return true;
}

void explore_ctx(Oracle &O, const IProg &P, int f, const Val &entry) {
  CtxInfo &ci = O.ctx[{f, entry}];
  bool reached = ci.reached;
  const PProg &p = O.pp[f];
  std::set<std::pair<int, Val>> seen;
  std::vector<std::pair<int, Val>> frontier = {{p.entry, entry}};
  StepOut so;
  while (!frontier.empty()) {
    std::vector<std::pair<int, Val>> next;
    for (auto &bv : frontier) {
      if (!seen.insert(bv).second) continue;
      int b = bv.first;
      if (reached) O.pre[f][b].insert(bv.second);
      std::vector<Val> cur = {bv.second};
      for (auto &s : p.blocks[b].stmts) {
        std::vector<Val> nxt;
        for (auto &v : cur) {
          O.steps++;
          if (s.kind == S_CALL) {
            auto it = O.fidx.find(s.name);
            if (it == O.fidx.end()) continue;
            int g = it->second;
            const GProg &gb = P.fs[g].body;
            Val e;
            e.v.fill(0);
            for (size_t i = 0; i < gb.inputs.size(); i++) e.v[gb.inputs[i]] = v.v[s.e.terms[i].second];
            auto key = std::make_pair(g, e);
            auto cit = O.ctx.find(key);
            if (cit == O.ctx.end()) {
              O.ctx[key] = CtxInfo();
              cit = O.ctx.find(key);
              O.changed = true;
            }
            if (reached && !cit->second.reached) { cit->second.reached = true; O.changed = true; }
            for (auto &r : cit->second.results) {
              Val w = v;
              for (size_t i = 0; i < s.vars.size(); i++) w.v[s.vars[i]] = r[i];
              nxt.push_back(w);
            }
            continue;
          }
          exec_stmt(s, v, so, BOX);
          if (reached && so.assert_id >= 0) {
            O.reached[so.assert_id] = true;
            if (!so.assert_ok) O.violated[so.assert_id] = true;
          }
          for (auto &w : so.next)
            if (in_clip(w)) nxt.push_back(w);
        }
        std::sort(nxt.begin(), nxt.end());
        nxt.erase(std::unique(nxt.begin(), nxt.end()), nxt.end());
        cur.swap(nxt);
        if (cur.empty()) break;
      }
      for (auto &v : cur) {
        if (reached) O.post[f][b].insert(v);
        if (b == p.exit) {
          std::vector<long> r;
          for (int o : P.fs[f].body.outputs) r.push_back(v.v[o]);
          if (O.ctx[{f, entry}].results.insert(r).second) O.changed = true;
        }
        for (int sb : p.blocks[b].succ) next.push_back({sb, v});
      }
    }
    frontier.swap(next);
  }
}

void frames_over(const std::vector<int> &vars, const std::vector<LinCst> &filter, std::vector<Val> &out) {
  Val z;
  z.v.fill(0);
  std::vector<Val> cur = {z};
  for (int v : vars) {
    std::vector<Val> nxt;
    for (auto &s : cur)
      for (long q : BOX) { Val t = s; t.v[v] = q; nxt.push_back(t); }
    cur.swap(nxt);
  }
  for (auto &s : cur) {
    bool ok = true;
    for (auto &c : filter) ok = ok && c.holds(s.v.data());
    if (ok) out.push_back(s);
  }
}

void run_oracle(Oracle &O, const IProg &P, const std::vector<int> &entries, const std::vector<LinCst> &init) {
  size_t n = P.fs.size();
  O.pre.assign(n, {});
  O.post.assign(n, {});
  for (size_t f = 0; f < n; f++) {
    O.pre[f].assign(O.pp[f].blocks.size(), {});
    O.post[f].assign(O.pp[f].blocks.size(), {});
  }
  // contexts for the summary clause: every input valuation of every function
  for (size_t f = 0; f < n; f++) {
    std::vector<Val> fr;
    frames_over(P.fs[f].body.inputs, {}, fr);
    for (auto &v : fr) O.ctx[{(int)f, v}];
  }
  // entry functions start from every frame over their variables allowed by the initial value
  for (int e : entries) {
    std::vector<Val> fr;
    frames_over(P.fs[e].vars, init, fr);
    for (auto &v : fr) O.ctx[{e, v}].reached = true;
  }
  int rounds = 0;
  do {
    O.changed = false;
    std::vector<std::pair<int, Val>> keys;
    for (auto &kv : O.ctx) keys.push_back(kv.first);
    for (auto &k : keys) explore_ctx(O, P, k.first, k.second);
    rounds++;
  } while (O.changed && rounds < 200);
}

// ---- configuration menus -----------------------------------------------------------------
struct TDP {
  std::string name;
  unsigned max_cc;
  bool exact, rec, only_main;
  unsigned delay, desc, thr;
};
std::vector<TDP> td_menu() {
  std::vector<TDP> r = {
      {"default", UINT_MAX, true, false, false, 2, 2, 20},
      {"cc=1", 1, true, false, false, 2, 2, 20},
      {"cc=2,approx", 2, false, false, false, 1, 1, 0},
      {"rec", UINT_MAX, true, true, false, 2, 2, 20},
      {"rec,cc=1,approx,delay=0", 1, false, true, false, 0, 0, 0},
  };
  if (th) {
    r.push_back({"only-main", UINT_MAX, true, false, true, 2, 2, 20});
    r.push_back({"rec,cc=2", 2, true, true, false, 1, 2, 3});
    r.push_back({"approx", UINT_MAX, false, false, false, 2, 0, 0});
    r.push_back({"rec,approx,only-main", UINT_MAX, false, true, true, 1, 1, 20});
    r.push_back({"cc=0", 0, true, true, false, 2, 2, 20});
  }
  return r;
}
struct Init {
  std::string name;
  std::vector<LinCst> csts;
};
std::vector<Init> init_menu() {
  std::vector<Init> r;
  r.push_back({"top", {}});
  if (th) r.push_back({"x<=0", {cst({{1, VX}}, 0, C_LEQ)}});
  return r;
}
wrapped_t make_init(const DomEntry &e, const Init &in) {
  wrapped_t v = top_of(e);
  lsys_t s;
  for (auto &c : in.csts) s += to_lcst(c);
  if (!in.csts.empty()) v += s;
  return v;
}

struct DomCfg {
  const DomEntry *e;
  Config cfg;
};
std::vector<DomCfg> DOMS;

long long n_programs = 0, n_analyses = 0, n_states = 0, n_steps = 0, n_member = 0, n_ctx = 0, n_summaries = 0, n_sum_pairs = 0, n_rec = 0, n_budget = 0,
          n_safe = 0, n_unreach = 0, n_warn = 0, n_nonbottom = 0;
std::set<uint64_t> distinct_inv;

void report(const std::string &dom, const std::string &clause, const std::string &spec, const std::string &detail) {
  // the same runs serve C02 (only the verdicts of the interleaved checker) and C05 (only termination)
  if (PROP == "C02" && clause.rfind("checker:", 0) != 0) return;
  if (PROP == "C05" && clause != "tick-budget-exceeded") return;
  vp::viol("inter:" + dom + ":" + clause, spec, detail);
}

bool recursive(const IProg &P) {
  size_t n = P.fs.size();
  std::map<std::string, int> idx;
  for (size_t i = 0; i < n; i++) idx[P.fs[i].body.fname] = (int)i;
  std::vector<std::vector<bool>> r(n, std::vector<bool>(n, false));
  for (size_t i = 0; i < n; i++)
    for (auto &b : P.fs[i].body.blocks)
      for (auto &s : b.stmts)
        if (s.kind == S_CALL && idx.count(s.name)) r[i][idx[s.name]] = true;
  for (size_t k = 0; k < n; k++)
    for (size_t i = 0; i < n; i++)
      for (size_t j = 0; j < n; j++)
        if (r[i][k] && r[k][j]) r[i][j] = true;
  for (size_t i = 0; i < n; i++)
    if (r[i][i]) return true;
  return false;
}

// is the input valuation described by the summary precondition? decided conservatively: every exported view agrees
bool in_pre(const Obs &o, const Val &v) {
  std::string extra;
  return member_clause(o, v, extra).empty();
}

template <typename Analyzer>
void check_invariants(Analyzer &a, const IProg &P, Oracle &O, std::vector<z_cfg_ref_t> &refs, const std::string &dom, const std::string &cspec,
                      const std::string &ctx, const std::set<int> &skip_funcs) {
  for (size_t f = 0; f < P.fs.size(); f++) {
    if (skip_funcs.count((int)f)) continue;
    bool bad = false;
    for (size_t b = 0; b < O.pp[f].blocks.size() && !bad; b++)
      for (int side = 0; side < 2 && !bad; side++) {
        const std::set<Val> &S = side == 0 ? O.pre[f][b] : O.post[f][b];
        if (S.empty()) continue;
        wrapped_t inv = side == 0 ? a.get_pre(refs[f], O.pp[f].blocks[b].label) : a.get_post(refs[f], O.pp[f].blocks[b].label);
        Obs o = observe(inv, P.fs[f].vars);
        if (!o.bottom) n_nonbottom++;
        if (f == 0 && side == 1 && b == O.pp[f].blocks.size() - 1) distinct_inv.insert(vp::fnv(dom + o.print));
        for (auto &s : S) {
          n_member++;
          std::string extra, cl = member_clause(o, s, extra);
          if (!cl.empty()) {
            report(dom, std::string(side == 0 ? "pre:" : "post:") + cl, cspec,
                   ctx + " => " + (side == 0 ? "PRE(" : "POST(") + P.fs[f].body.fname + "." + O.pp[f].blocks[b].label + ") = " + o.print +
                       " misses reachable state " + vstr(s, P.fs[f].vars) + " " + extra);
            bad = true;
            break;
          }
        }
      }
  }
}

// "the inputs satisfy the precondition" is decided through the exported views of pre, which is only exact for
// intervals, zones and octagons; for other domains (term equalities, congruences) the export over-approximates
// pre and the clause would demand more than the property states
bool SUMMARY_CLAUSE = true;
template <typename Analyzer>
void check_summaries(Analyzer &a, const IProg &P, Oracle &O, std::vector<z_cfg_ref_t> &refs, const std::string &dom, const std::string &cspec,
                     const std::string &ctx) {
  if (!SUMMARY_CLAUSE) return;
  for (size_t f = 0; f < P.fs.size(); f++) {
    const GProg &fb = P.fs[f].body;
    if (fb.outputs.empty()) continue;
    auto sum = a.get_summary(refs[f]);
    std::vector<int> io = fb.inputs;
    io.insert(io.end(), fb.outputs.begin(), fb.outputs.end());
    int k = 0;
    for (auto it = sum.begin(); it != sum.end(); ++it, ++k) {
      n_sum_pairs++;
      Obs opre = observe(it->get_pre(), fb.inputs);
      Obs opost = observe(it->get_post(), io);
      bool bad = false;
      for (auto &kv : O.ctx) {
        if (kv.first.first != (int)f || bad) continue;
        // contexts of f that are plain input valuations (locals zero); entry frames of an entry function are not calls
        bool plain = true;
        for (int v = 0; v < NVARS; v++)
          if (kv.first.second.v[v] != 0 && std::find(fb.inputs.begin(), fb.inputs.end(), v) == fb.inputs.end()) plain = false;
        if (!plain) continue;
        if (!in_pre(opre, kv.first.second)) continue;
        for (auto &r : kv.second.results) {
          Val io_val = kv.first.second;
          for (size_t i = 0; i < fb.outputs.size(); i++) io_val.v[fb.outputs[i]] = r[i];
          n_member++;
          n_summaries++;
          std::string extra, cl = member_clause(opost, io_val, extra);
          if (!cl.empty()) {
            report(dom, "summary:" + cl, cspec,
                   ctx + " => summary #" + std::to_string(k) + " of " + fb.fname + " pre=" + opre.print + " post=" + opost.print +
                       " misses the concrete call " + vstr(io_val, io) + " " + extra);
            bad = true;
            break;
          }
        }
      }
    }
  }
}

void run_program(const ProgId &id, const std::string &only_dom) {
  bool uses_g = false, uses_h = false;
  IProg P = make_prog(id, uses_g, uses_h);
  if (uses_g != (id.g >= 0) || uses_h != (id.h >= 0)) return; // g / h are part of the program iff referenced
  std::string spec = id.spec();
  vp::set_case(spec);
  std::vector<std::unique_ptr<z_cfg_t>> cfgs;
  std::vector<z_cfg_ref_t> refs;
  Oracle proto;
  try {
    for (auto &f : P.fs) cfgs.push_back(build_cfg(f.body));
  } catch (std::runtime_error &e) {
    report("cfg", "abort-building-cfg", spec, P.str() + " : " + e.what());
    return;
  }
  for (size_t i = 0; i < cfgs.size(); i++) {
    refs.push_back(z_cfg_ref_t(*cfgs[i]));
    proto.pp.push_back(decompile(*cfgs[i]));
    if (!proto.pp.back().ok) return;
    proto.fidx[P.fs[i].body.fname] = (int)i;
  }
  n_programs++;
  bool rec = recursive(P);
  if (rec) n_rec++;
  // entries of the call graph: functions nobody calls
  std::vector<int> entries;
  {
    std::set<std::string> called;
    for (auto &f : P.fs)
      for (auto &b : f.body.blocks)
        for (auto &s : b.stmts)
          if (s.kind == S_CALL) called.insert(s.name);
    for (size_t i = 0; i < P.fs.size(); i++)
      if (!called.count(P.fs[i].body.fname)) entries.push_back((int)i);
  }
  for (auto &in : init_menu()) {
    Oracle O = proto;
    run_oracle(O, P, entries, in.csts);
    n_ctx += (long long)O.ctx.size();
    n_steps += O.steps;
    for (auto &fp : O.pre)
      for (auto &s : fp) n_states += (long long)s.size();
    Oracle Omain; // oracle when only main is an entry
    bool have_omain = false;
    for (auto &dc : DOMS) {
      if (!only_dom.empty() && dc.e->name != only_dom) continue;
      apply_config(dc.cfg);
      SUMMARY_CLAUSE = (dc.e->caps & (CAP_EXACT_INT | CAP_EXACT_ZONE | CAP_EXACT_OCT)) != 0;
      if (PROP != "C10") {
        for (auto &tp : td_menu()) {
          std::string ctx = "[" + dc.e->name + " " + dc.cfg.name + " td(" + tp.name + ") init=" + in.name + "] " + P.str();
          std::string cspec = spec + "|" + dc.e->name + "|" + dc.cfg.name;
          try {
            cg_t cg(refs);
            td_params_t params;
            params.max_call_contexts = tp.max_cc;
            params.exact_summary_reuse = tp.exact;
            params.analyze_recursive_functions = tp.rec;
            params.only_main_as_entry = tp.only_main;
            params.widening_delay = tp.delay;
            params.descending_iters = tp.desc;
            params.thresholds_size = tp.thr;
            params.run_checker = true;
            params.checker_verbosity = 0;
            wrapped_t top = top_of(*dc.e);
            wrapped_t init = make_init(*dc.e, in);
            g_ticks = 0;
            td_t a(cg, top, params);
            a.run(init);
            n_analyses++;
            g_max_ticks = std::max(g_max_ticks, g_ticks);
            Oracle *Ou = &O;
            if (tp.only_main && entries.size() > 1) {
              if (!have_omain) {
                Omain = proto;
                run_oracle(Omain, P, {0}, in.csts);
                have_omain = true;
              }
              Ou = &Omain;
            }
            check_invariants(a, P, *Ou, refs, dc.e->name, cspec, ctx, {});
            check_summaries(a, P, *Ou, refs, dc.e->name, cspec, ctx);
            // verdicts of the built-in checker
            crab::checker::checks_db db = a.get_all_checks();
            for (auto &kv : db.get_all_checks()) {
              int aid = (int)kv.first.get_id();
              // one entry per checked calling context: the location is classified safe (unreachable) only if no
              // entry is a warning or an error (and every entry is unreachable)
              bool any_safe = false, any_unreach = false, any_other = false;
              for (auto k : kv.second) {
                if (k == crab::checker::check_kind::CRAB_SAFE) { n_safe++; any_safe = true; }
                else if (k == crab::checker::check_kind::CRAB_UNREACH) { n_unreach++; any_unreach = true; }
                else { n_warn++; any_other = true; }
              }
              if (any_other) continue;
              if ((any_safe || any_unreach) && Ou->violated.count(aid))
                report(dc.e->name, "checker:safe-but-violated", cspec, ctx + " => every verdict recorded for assertion #" + std::to_string(aid) + " is SAFE/UNREACHABLE but some execution violates it");
              else if (any_unreach && !any_safe && Ou->reached.count(aid))
                report(dc.e->name, "checker:unreachable-but-reached", cspec, ctx + " => assertion #" + std::to_string(aid) + " reported UNREACHABLE (in every context) but some execution reaches it");
            }
          } catch (budget_exceeded &) {
            n_budget++;
            report(dc.e->name, "tick-budget-exceeded", cspec, ctx + " => more than " + std::to_string(g_budget) + " fixpoint iterations");
          } catch (std::runtime_error &e) {
            report(dc.e->name, "abort", cspec, ctx + " => analysis aborts: " + e.what());
          }
        }
      }
      if (PROP == "C10" || PROP == "C02" || PROP == "C05") { // bottom-up + top-down analyzer
        if (entries.size() != 1 || entries[0] != 0) continue; // documented limitation: a single entry point (main)
        // The order of the cfgs handed to the call graph decides vertex numbers, hence the order of the out-edges and of
        // the SCC / topological traversals: recursive programs with four functions are analysed under every order.
        std::vector<std::vector<int>> orders;
        {
          std::vector<int> idn;
          for (size_t i = 0; i < refs.size(); i++) idn.push_back((int)i);
          orders.push_back(idn);
          if (rec && refs.size() >= 4 && (PROP == "C10" || th)) {
            std::vector<int> pm = idn;
            while (std::next_permutation(pm.begin(), pm.end())) orders.push_back(pm);
          }
        }
        for (auto &ord : orders)
        for (auto &dc2 : DOMS) {
          if (!only_dom.empty() && dc2.e->name != only_dom && false) continue;
          if (&ord != &orders[0] && &dc2 != &DOMS[0]) continue; // other orders: one forward domain
          std::vector<z_cfg_ref_t> refs_ord;
          std::string ordstr;
          for (int i : ord) { refs_ord.push_back(refs[i]); ordstr += std::to_string(i); }
          for (int fpi = 0; fpi < (th ? 3 : 1); fpi++) {
            if (&ord != &orders[0] && fpi > 0) continue;
            std::string ctx = "[summary domain " + dc.e->name + " " + dc.cfg.name + ", forward domain " + dc2.e->name + " " + dc2.cfg.name +
                              " fp#" + std::to_string(fpi) + " cfg-order=" + ordstr + " init=" + in.name + "] " + P.str();
            std::string cspec = spec + "|" + dc.e->name + "|" + dc.cfg.name;
            try {
              cg_t cg(refs_ord);
              bu_params_t params;
              params.run_checker = false;
              if (fpi == 1) { params.widening_delay = 0; params.descending_iters = 0; params.thresholds_size = 0; }
              if (fpi == 2) { params.widening_delay = 1; params.descending_iters = 1; params.thresholds_size = 3; }
              apply_config(dc.cfg);
              wrapped_t bu_top = top_of(*dc.e);
              apply_config(dc2.cfg);
              wrapped_t td_top = top_of(*dc2.e);
              wrapped_t init = make_init(*dc2.e, in);
              g_ticks = 0;
              bu_t a(cg, td_top, bu_top, params);
              a.run(init);
              n_analyses++;
              g_max_ticks = std::max(g_max_ticks, g_ticks);
              check_invariants(a, P, O, refs, dc.e->name + "/" + dc2.e->name, cspec, ctx, {});
              SUMMARY_CLAUSE = true; // the bottom-up summary has precondition top: nothing to decide
              check_summaries(a, P, O, refs, dc.e->name + "/" + dc2.e->name, cspec, ctx);
              if (PROP == "C02") { // C02: the generic inter-procedural checker on top of the summary-based analyzer
                typedef crab::checker::inter_checker<bu_t> checker_t;
                typedef crab::checker::assert_property_checker<bu_t> assert_chk_t;
                typename checker_t::prop_checker_ptr pc(new assert_chk_t(0));
                checker_t chk(a, {pc});
                chk.run();
                crab::checker::checks_db db = chk.get_all_checks();
                for (auto &kv : db.get_all_checks()) {
                  int aid = (int)kv.first.get_id();
                  for (auto k : kv.second) {
                    if (k == crab::checker::check_kind::CRAB_SAFE) {
                      n_safe++;
                      if (O.violated.count(aid))
                        report(dc.e->name + "/" + dc2.e->name, "checker:bu:safe-but-violated", cspec, ctx + " => assertion #" + std::to_string(aid) + " reported SAFE but some execution violates it");
                    } else if (k == crab::checker::check_kind::CRAB_UNREACH) {
                      n_unreach++;
                      if (O.reached.count(aid))
                        report(dc.e->name + "/" + dc2.e->name, "checker:bu:unreachable-but-reached", cspec, ctx + " => assertion #" + std::to_string(aid) + " reported UNREACHABLE but some execution reaches it");
                    } else
                      n_warn++;
                  }
                }
              }
            } catch (budget_exceeded &) {
              n_budget++;
              report(dc.e->name + "/" + dc2.e->name, "tick-budget-exceeded", cspec, ctx);
            } catch (std::runtime_error &e) {
              report(dc.e->name + "/" + dc2.e->name, "abort", cspec, ctx + " => analysis aborts: " + e.what());
            }
          }
        }
      }
    }
    if (vp::want_sample() && rec && id.g >= 0 && id.loop)
      vp::sample(P.str() + " init=" + in.name + " : " + std::to_string(O.ctx.size()) + " concrete calling contexts");
  }
}

bool parse_spec(const std::string &s, ProgId &id) {
  id.multi = 0;
  int n = sscanf(s.c_str(), "%d.%d.%d.%d.%d.%d:%d.%d.%d.%d:%d:%d:M%d", &id.m1, &id.c1, &id.m2, &id.c2, &id.as, &id.loop, &id.fshape, &id.s1, &id.s2, &id.s3,
                 &id.g, &id.h, &id.multi);
  return n == 12 || n == 13;
}

} // namespace

int main(int argc, char **argv) {
  vp::parse_args(argc, argv);
  vp::install_crash_handler();
  quiet_crab();
  crab::verif::tick_hook() = &tick;
  PROP = vp::args().check;
  th = vp::args().thorough();
  std::string only = vp::args().opt.count("domains") ? vp::args().opt["domains"] : "";
  std::vector<std::string> names;
  if (th)
    names = {"intervals", "split_dbm", "split_oct", "sparse_dbm", "term_int", "ric"};
  else
    names = {"intervals", "split_dbm"};
  if (PROP == "C10") names = th ? std::vector<std::string>{"intervals", "split_dbm", "split_oct", "ric"} : std::vector<std::string>{"intervals", "split_dbm"};
  for (auto &n : names) {
    if (!only.empty() && ("," + only + ",").find("," + n + ",") == std::string::npos) continue;
    const DomEntry *e = find_domain(n);
    if (!e) continue;
    const std::vector<Config> &cfgs = th ? e->configs_thorough : e->configs_quick;
    DOMS.push_back({e, cfgs[0]});
  }
  build_alphabets();

  if (!vp::args().replay.empty()) {
    auto parts = vp::split(vp::args().replay, '|');
    ProgId id;
    if (!parse_spec(parts[0], id)) { fprintf(stderr, "bad spec\n"); return 2; }
    run_program(id, PROP != "C10" && parts.size() > 1 ? parts[1] : "");
    vp::finish();
    return 0;
  }

  uint64_t caseno = 0, mine_count = 0;
  bool cut = false;
  int nf = (int)FS.size();
  // (runs first so that a deadline cuts the large family below, not this one)
  // the multi-call family: main calls the two-armed f four times with constants from {-1,0,1} (every 4-tuple), so that a bound on the
  // calling contexts is exceeded by pairwise disjoint contexts; f's statements range over the call-free part of the alphabet
  // (thorough: plus the recursive call y:=f(z))
  if (PROP == "C09" || PROP == "C02" || th) {
    std::vector<int> fs_plain;
    for (int i = 0; i < nf; i++)
      if (i < 9 && (FS[i].kind != S_CALL || (th && FS[i].name == "f" && i < 6))) fs_plain.push_back(i); // the base alphabet (thorough: plus y:=f(z))
    for (int s1 : fs_plain)
      for (int s2 : fs_plain)
        for (int s3 : fs_plain)
          for (int multi = 1; multi <= 81 && !cut; multi++)
            for (int as = (PROP == "C02" ? 1 : 0); as < (PROP == "C10" || PROP == "C05" ? 1 : 2); as++) {
              if (!(s3 == 0 || s3 == 2 || (th && FS[s3].kind == S_CALL))) continue; // third statement: skip, y:=x+1 (thorough: or the recursive call)
              if (!vp::mine(caseno++)) continue;
              if ((++mine_count & 0x3) == 0 && vp::past_deadline()) {
                vp::incomplete("cut in the multi-call family at s1=" + std::to_string(s1));
                cut = true;
                break;
              }
              ProgId id = {0, 0, 0, 0, as, 0, 1, s1, s2, s3, -1, -1};
              id.multi = multi;
              run_program(id, "");
            }
  }

  for (int fshape = 0; fshape < 2 && !cut; fshape++)
    for (int s1 = 0; s1 < nf && !cut; s1++)
      for (int s2 = 0; s2 < nf && !cut; s2++)
        for (int s3 = 0; s3 < (fshape ? nf : 1) && !cut; s3++)
          for (int m1 = 0; m1 < (int)M1.size() && !cut; m1++)
            for (int c1 = 0; c1 < (int)C1.size() && !cut; c1++)
              for (int m2 = 0; m2 < (int)M2.size() && !cut; m2++)
                for (int c2 = 0; c2 < (int)C2.size() && !cut; c2++)
                  for (int as = (PROP == "C02" ? 1 : 0); as < (PROP == "C10" || PROP == "C05" ? 1 : (int)AS.size()) && !cut; as++)
                    for (int loop = 0; loop < 2 && !cut; loop++)
                      for (int g = -1; g < NG && !cut; g++)
                       for (int h = -1; h < NH; h++) {
                        // cheap pre-filter: h is part of the program iff the second call of main is an h call
                        const bool want_h = mentions(C2[c2], "h") || mentions(FS[s1], "h") || mentions(FS[s2], "h") || (fshape && mentions(FS[s3], "h"));
                        if ((h >= 0) != want_h) continue;
                        // quick tier: programs with h use the straight-line f only; the third statement of the branching f
                        // ranges over {skip, y:=x+1, y:=f(z), y:=g(x)}
                        if (!th && h >= 0 && fshape != 0) continue;
                        if (!th && fshape == 1 && !(s3 == 0 || s3 == 2 || s3 == 5 || s3 == 6)) continue;
                        if (!vp::mine(caseno++)) continue;
                        if ((++mine_count & 0x3) == 0 && vp::past_deadline()) {
                          vp::incomplete("cut at f shape " + std::to_string(fshape) + " s1=" + std::to_string(s1) + " s2=" + std::to_string(s2));
                          cut = true;
                          break;
                        }
                        ProgId id = {m1, c1, m2, c2, as, loop, fshape, s1, s2, s3, g, h};
                        run_program(id, "");
                      }

  vp::stat("programs", n_programs);
  vp::stat("recursive_programs", n_rec);
  vp::stat("states", n_states + n_ctx);
  vp::stat("transitions", n_steps);
  vp::stat("traces_validated_against_impl", n_analyses);
  vp::stat("evaluations", n_analyses);
  vp::stat("member_checks", n_member);
  vp::stat("concrete_calling_contexts", n_ctx);
  vp::stat("summary_pairs_checked", n_sum_pairs);
  vp::stat("summary_call_checks", n_summaries);
  vp::stat("nonbottom_block_invariants", n_nonbottom);
  vp::stat("verdict_safe", n_safe);
  vp::stat("verdict_unreachable", n_unreach);
  vp::stat("verdict_warning", n_warn);
  vp::stat("tick_budget_exceeded", n_budget);
  vp::stat("distinct_nontrivial", (long long)distinct_inv.size());
  vp::statmax("max_fixpoint_ticks", g_max_ticks);
  vp::finish();
  return 0;
}
