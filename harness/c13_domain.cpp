// C13 (domain clause) — the wrapped-interval DOMAIN under machine-integer
// semantics: bounded-exhaustive exploration of operation histories over an
// 8-bit variable s8, 32-bit variables x, y and a 64-bit variable l64, executed
// on the real wrapped_interval_domain and on sets of concrete machine states
// (values kept in the signed range of their width, arithmetic modulo 2^w,
// constraints compared as signed numbers — "cst is always signed").
#include "common/dombox_impl.hpp"
#include "common/histops.hpp"
#include "common/proto.hpp"

#include <unordered_map>

using namespace vb;
using vh::cst;
using vh::lin;
using vh::Val;

namespace {

const std::vector<int> VARS = {VS8, VX, VY, VL64};
int width(int v) { return v == VS8 ? 8 : (v == VL64 ? 64 : 32); }
// signed value of the low w bits
long sgn(unsigned long u, int w) {
  if (w == 64) return (long)u;
  unsigned long m = (1UL << w) - 1;
  u &= m;
  if (u >> (w - 1)) return (long)(u | ~m);
  return (long)u;
}
unsigned long uns(long s, int w) { return w == 64 ? (unsigned long)s : ((unsigned long)s & ((1UL << w) - 1)); }

typedef std::vector<Val> WSet;
void norm(WSet &w) {
  std::sort(w.begin(), w.end());
  w.erase(std::unique(w.begin(), w.end()), w.end());
  if (w.size() > 600) {
    WSet r;
    for (size_t i = 0; i < 600; i++) r.push_back(w[i * w.size() / 600]);
    w.swap(r);
  }
}
std::string wstr(const Val &v) {
  return "{s8=" + std::to_string(v.v[VS8]) + ",x=" + std::to_string(v.v[VX]) + ",y=" + std::to_string(v.v[VY]) + ",l64=" + std::to_string(v.v[VL64]) + "}";
}

enum Eng { E_NONE = 0, E_COPY, E_SWAP, E_JOIN, E_WIDEN, E_MEET };
struct MOp {
  std::string name;
  Op op;
  int eng = E_NONE;
  int tier = 0;
};
std::vector<MOp> ALPHA;
Op mk(int kind) { Op o; o.kind = kind; return o; }
void add(const std::string &n, Op o, int tier = 0) { MOp a; a.name = n; a.op = o; a.tier = tier; ALPHA.push_back(a); }
void add_eng(const std::string &n, int e, int tier = 0) { MOp a; a.name = n; a.op.kind = -1; a.eng = e; a.tier = tier; ALPHA.push_back(a); }
Op assign_k(int x, long k) { Op o = mk(O_ASSIGN); o.v0 = x; o.e = lin({}, k); return o; }
Op assign_v(int x, int y) { Op o = mk(O_ASSIGN); o.v0 = x; o.e = lin({{1, y}}); return o; }
Op arith(int code, int x, int y, long k) { Op o = mk(O_ARITH_VK); o.a = code; o.v0 = x; o.v1 = y; o.k = k; return o; }
Op arith_vv(int code, int x, int y, int z) { Op o = mk(O_ARITH_VV); o.a = code; o.v0 = x; o.v1 = y; o.v2 = z; return o; }
Op bitw(int code, int x, int y, long k) { Op o = mk(O_BITW_VK); o.a = code; o.v0 = x; o.v1 = y; o.k = k; return o; }
Op cast(int code, int dst, int src) { Op o = mk(O_CAST); o.a = code; o.v0 = dst; o.v1 = src; return o; }
Op assume(LinCst c) { Op o = mk(O_ASSUME); o.c = c; return o; }
Op forget(int x) { Op o = mk(O_FORGET); o.v0 = x; return o; }

void build_alphabet() {
  ALPHA.clear();
  add("s8:=127", assign_k(VS8, 127));
  add("s8:=-128", assign_k(VS8, -128));
  add("s8:=s8+1", arith(0, VS8, VS8, 1));
  add("s8:=s8-1", arith(1, VS8, VS8, 1));
  add("s8:=s8*2", arith(2, VS8, VS8, 2));
  add("s8:=s8/2", arith(3, VS8, VS8, 2));
  add("s8:=s8 udiv 2", arith(4, VS8, VS8, 2));
  add("s8:=s8>>1", bitw(5, VS8, VS8, 1));
  add("s8:=s8 lshr 1", bitw(4, VS8, VS8, 1));
  add("havoc(s8)", forget(VS8));
  add("assume(s8<=0)", assume(cst({{1, VS8}}, 0, C_LEQ)));
  add("assume(s8>=1)", assume(cst({{-1, VS8}}, 1, C_LEQ)));
  add("assume(s8>=100)", assume(cst({{-1, VS8}}, 100, C_LEQ)));
  add("x:=sext(s8)", cast(1, VX, VS8));
  add("x:=zext(s8)", cast(2, VX, VS8));
  add("s8:=trunc(x)", cast(0, VS8, VX));
  add("x:=x+100", arith(0, VX, VX, 100));
  add_eng("save", E_COPY);
  add_eng("join(saved)", E_JOIN);
  add_eng("widen(saved)", E_WIDEN);
  // tier 1
  add("s8:=0", assign_k(VS8, 0), 1);
  add("s8:=s8 srem 3", arith(5, VS8, VS8, 3), 1);
  add("s8:=s8 urem 3", arith(6, VS8, VS8, 3), 1);
  add("s8:=s8<<1", bitw(3, VS8, VS8, 1), 1);
  add("s8:=s8&15", bitw(0, VS8, VS8, 15), 1);
  add("s8:=s8^-1", bitw(2, VS8, VS8, -1), 1);
  add("assume(s8!=0)", assume(cst({{1, VS8}}, 0, C_DISEQ)), 1);
  add("assume(s8<-100)", assume(cst({{1, VS8}}, 100, C_LT)), 1);
  add("x:=2147483647", assign_k(VX, 2147483647L), 1);
  add("x:=x+1", arith(0, VX, VX, 1), 1);
  add("x:=-1", assign_k(VX, -1), 1);
  add("y:=x", assign_v(VY, VX), 1);
  add("x:=x+y", arith_vv(0, VX, VX, VY), 1);
  add("x:=x*y", arith_vv(2, VX, VX, VY), 1);
  add("assume(x<=y)", assume(cst({{1, VX}, {-1, VY}}, 0, C_LEQ)), 1);
  add("assume(x>=0)", assume(cst({{-1, VX}}, 0, C_LEQ)), 1);
  add("l64:=sext(x)", cast(1, VL64, VX), 1);
  add("l64:=zext(x)", cast(2, VL64, VX), 1);
  add("x:=trunc(l64)", cast(0, VX, VL64), 1);
  add("havoc(x)", forget(VX), 1);
  add_eng("swap", E_SWAP, 1);
  add_eng("meet(saved)", E_MEET, 1);
}

// ---- machine semantics --------------------------------------------------------------------
bool cstep(const MOp &a, const Val &in, std::vector<Val> &out) {
  const Op &o = a.op;
  Val w = in;
  switch (o.kind) {
  case O_ASSIGN: {
    long r = o.e.cst;
    for (auto &t : o.e.terms) r += t.first * in.v[t.second];
    w.v[o.v0] = sgn((unsigned long)r, width(o.v0));
    out.push_back(w);
    return true;
  }
  case O_ARITH_VK:
  case O_ARITH_VV: {
    int wd = width(o.v0);
    long ys = in.v[o.v1], zs = o.kind == O_ARITH_VK ? sgn((unsigned long)o.k, wd) : in.v[o.v2];
    unsigned long yu = uns(ys, wd), zu = uns(zs, wd), r;
    switch (o.a) {
    case 0: r = yu + zu; break;
    case 1: r = yu - zu; break;
    case 2: r = yu * zu; break;
    case 3: if (zs == 0 || (zs == -1 && ys == sgn(1UL << (wd - 1), wd))) return false; r = (unsigned long)(ys / zs); break;
    case 4: if (zu == 0) return false; r = yu / zu; break;
    case 5: if (zs == 0 || zs == -1) return false; r = (unsigned long)(ys % zs); break;
    default: if (zu == 0) return false; r = yu % zu; break;
    }
    w.v[o.v0] = sgn(r, wd);
    out.push_back(w);
    return true;
  }
  case O_BITW_VK: {
    int wd = width(o.v0);
    long ys = in.v[o.v1];
    unsigned long yu = uns(ys, wd), ku = uns(sgn((unsigned long)o.k, wd), wd), r;
    switch (o.a) {
    case 0: r = yu & ku; break;
    case 1: r = yu | ku; break;
    case 2: r = yu ^ ku; break;
    case 3: if (o.k < 0 || o.k >= wd) return false; r = yu << o.k; break;
    case 4: if (o.k < 0 || o.k >= wd) return false; r = yu >> o.k; break;
    default: if (o.k < 0 || o.k >= wd) return false; r = (unsigned long)(ys >> o.k); break;
    }
    w.v[o.v0] = sgn(r, wd);
    out.push_back(w);
    return true;
  }
  case O_CAST: {
    int dw = width(o.v0), sw = width(o.v1);
    long s = in.v[o.v1];
    if (o.a == 0) w.v[o.v0] = sgn(uns(s, sw), dw);          // trunc keeps the low bits
    else if (o.a == 1) w.v[o.v0] = s;                        // sext keeps the signed value
    else w.v[o.v0] = sgn(uns(s, sw), dw);                    // zext keeps the unsigned value
    out.push_back(w);
    return true;
  }
  case O_ASSUME: if (o.c.holds(in.v.data())) out.push_back(w); return true; // signed comparison
  case O_FORGET: {
    int wd = width(o.v0);
    long smax = wd == 64 ? 9223372036854775807L : (1L << (wd - 1)) - 1, smin = -smax - 1;
    for (long q : {smin, smin + 1, -1L, 0L, 1L, smax - 1, smax}) { w.v[o.v0] = q; out.push_back(w); }
    return true;
  }
  default: return false;
  }
}

struct Reg {
  std::unique_ptr<DomBox> box;
  WSet W;
};
struct Node {
  Reg r[2];
  Node() {}
  Node(const Node &o) { *this = o; }
  Node &operator=(const Node &o) {
    for (int i = 0; i < 2; i++) {
      r[i].box = o.r[i].box->clone();
      r[i].W = o.r[i].W;
    }
    return *this;
  }
};

const DomEntry *DOM = nullptr;
std::string DOMNAME = "wrapped_int", CFGNAME = "default";
int MAXD = 3;
long long n_nodes = 0, n_ops = 0, n_member = 0, n_pruned = 0, n_dropped = 0;
std::set<uint64_t> distinct_states;

WSet initial_witnesses() {
  WSet W;
  long s8s[] = {-128, -1, 0, 1, 127}, xs[] = {0, -1, 2147483647L};
  for (long a : s8s)
    for (long b : xs) {
      Val v;
      v.v.fill(0);
      v.v[VS8] = a;
      v.v[VX] = b;
      v.v[VY] = 5;
      v.v[VL64] = -7;
      W.push_back(v);
    }
  norm(W);
  return W;
}
Node initial_node() {
  Node n;
  for (int i = 0; i < 2; i++) {
    n.r[i].box = DOM->make_top();
    n.r[i].W = initial_witnesses();
  }
  return n;
}
std::string path_str(const std::vector<int> &p) {
  std::string s;
  for (size_t i = 0; i < p.size(); i++) s += (i ? "." : "") + std::to_string(p[i]);
  return s;
}
std::string path_names(const std::vector<int> &p) {
  std::string s;
  for (size_t i = 0; i < p.size(); i++) s += (i ? " ; " : "") + ALPHA[p[i]].name;
  return s;
}
void report(const std::string &clause, const std::vector<int> &path, const std::string &detail) {
  vp::viol("wrapped_int:domain:" + clause, "h|" + path_str(path), "[wrapped_interval_domain] " + path_names(path) + " => " + detail);
}

void check_reg(const Reg &r, const std::vector<int> &path) {
  if (r.W.empty()) return;
  if (r.box->is_bottom()) {
    report("bottom-but-reached", path, "state is bottom but " + wstr(r.W[0]) + " is a machine state of this history");
    return;
  }
  std::vector<Itv> at;
  for (int v : VARS) at.push_back(r.box->at(v));
  std::vector<LinCst> cs = r.box->csts();
  for (auto &w : r.W) {
    n_member++;
    for (size_t i = 0; i < VARS.size(); i++)
      if (!at[i].contains(w.v[VARS[i]])) {
        report("M3:interval-misses-value", path, r.box->print() + " : at(" + var_name(VARS[i]) + ")=" + at[i].str() + " misses " + wstr(w));
        return;
      }
    for (auto &c : cs) {
      if (c.big) continue;
      if (!c.holds(w.v.data())) {
        report("M1:exported-constraint-false", path, r.box->print() + " : " + c.str() + " is false (signed reading) in " + wstr(w));
        return;
      }
    }
  }
}

enum Status { ST_OK, ST_SKIP };
Status apply_op(const MOp &a, Node &n, const std::vector<int> &path) {
  n_ops++;
  try {
    switch (a.eng) {
    case E_COPY: n.r[1].box = n.r[0].box->clone(); n.r[1].W = n.r[0].W; return ST_OK;
    case E_SWAP: std::swap(n.r[0], n.r[1]); return ST_OK;
    case E_JOIN:
    case E_WIDEN: {
      Op o = mk(a.eng == E_JOIN ? O_JOIN : O_WIDEN);
      if (a.eng == E_WIDEN) {
        std::unique_ptr<DomBox> l = n.r[1].box->clone();
        l->apply(o, n.r[0].box.get());
        n.r[0].box = std::move(l);
      } else
        n.r[0].box->apply(o, n.r[1].box.get());
      n.r[0].W.insert(n.r[0].W.end(), n.r[1].W.begin(), n.r[1].W.end());
      norm(n.r[0].W);
      return ST_OK;
    }
    case E_MEET: {
      Op o = mk(O_MEET);
      n.r[0].box->apply(o, n.r[1].box.get());
      WSet both;
      std::set_intersection(n.r[0].W.begin(), n.r[0].W.end(), n.r[1].W.begin(), n.r[1].W.end(), std::back_inserter(both));
      n.r[0].W = both;
      return ST_OK;
    }
    default: break;
    }
    n.r[0].box->apply(a.op, nullptr);
    WSet nw;
    for (auto &w : n.r[0].W) {
      std::vector<Val> out;
      if (!cstep(a, w, out)) { n_dropped++; continue; }
      nw.insert(nw.end(), out.begin(), out.end());
    }
    norm(nw);
    n.r[0].W = nw;
    return ST_OK;
  } catch (std::runtime_error &e) {
    report("abort", path, std::string("operation aborts: ") + e.what());
    return ST_SKIP;
  }
}

std::unordered_map<uint64_t, int> seen;
uint64_t state_key(const Node &n) {
  std::string s;
  for (int i = 0; i < 2; i++) {
    s += n.r[i].box->repr();
    s += "#";
    for (auto &w : n.r[i].W) s += wstr(w);
    s += "|";
  }
  return vp::fnv(s);
}

void dfs(Node &n, int depth, std::vector<int> &path, int lo, int hi, int maxtier) {
  if (depth >= MAXD) return;
  for (int oi = lo; oi < hi; oi++) {
    if (ALPHA[oi].tier > maxtier) continue;
    Node m = n;
    path.push_back(oi);
    vp::set_case("h|" + path_str(path));
    Status st = apply_op(ALPHA[oi], m, path);
    if (st == ST_OK) {
      n_nodes++;
      try {
        check_reg(m.r[0], path);
      } catch (std::runtime_error &e) {
        report("abort", path, std::string("query aborts: ") + e.what());
      }
      uint64_t key = state_key(m);
      if (distinct_states.size() < 2000000) distinct_states.insert(key);
      int remaining = MAXD - depth - 1;
      auto it = seen.find(key);
      if (it != seen.end() && it->second >= remaining)
        n_pruned++;
      else {
        seen[key] = remaining;
        if (vp::want_sample() && depth == MAXD - 1 && m.r[0].W.size() > 3) vp::sample("[wrapped_interval_domain] " + path_names(path) + " : " + m.r[0].box->print());
        dfs(m, depth + 1, path, 0, (int)ALPHA.size(), maxtier);
      }
    }
    path.pop_back();
  }
}

// ---- C05 clause: widening chains of the wrapped-interval domain ---------------------------------
// pool = distinct values reached by core histories of depth <= 2; for all ordered pairs (A,B):
// acc := A; repeat { nw := acc | B; stop if nw <= acc; acc := acc || nw } must stop within 100 steps
// (the wrapped widening doubles the size, so <= 64 steps are expected for a 64-bit variable).
void collect_pool(Node &n, int depth, std::vector<int> &path, std::vector<std::pair<std::unique_ptr<DomBox>, std::vector<int>>> &pool, std::set<std::string> &seenp) {
  if (depth == 2) return;
  for (int oi = 0; oi < (int)ALPHA.size(); oi++) {
    if (ALPHA[oi].tier > 0 && ALPHA[oi].name.find("x:=") != 0 && ALPHA[oi].name.find("assume(x") != 0) continue;
    Node m = n;
    path.push_back(oi);
    if (apply_op(ALPHA[oi], m, path) == ST_OK) {
      std::string key = m.r[0].box->print();
      if (seenp.insert(key).second && pool.size() < 400) pool.push_back({m.r[0].box->clone(), path});
      collect_pool(m, depth + 1, path, pool, seenp);
    }
    path.pop_back();
  }
}
void run_chains() {
  Node n = initial_node();
  std::vector<std::pair<std::unique_ptr<DomBox>, std::vector<int>>> pool;
  std::set<std::string> seenp;
  std::vector<int> path;
  collect_pool(n, 0, path, pool, seenp);
  vp::statmax("pool.wrapped_int", (long long)pool.size());
  for (size_t i = 0; i < pool.size(); i++) {
    if (!vp::mine(i)) continue;
    if (vp::past_deadline()) { vp::incomplete("wrapped_int chains"); return; }
    for (size_t j = 0; j < pool.size(); j++) {
      std::string spec = "c|" + std::to_string(i) + "|" + std::to_string(j);
      vp::set_case(spec);
      n_nodes++;
      try {
        std::unique_ptr<DomBox> acc = pool[i].first->clone();
        bool stationary = false;
        for (int k = 0; k < 100; k++) {
          std::unique_ptr<DomBox> nw = acc->clone();
          Op oj = mk(O_JOIN);
          nw->apply(oj, pool[j].first.get());
          n_ops++;
          if (nw->leq(*acc)) { stationary = true; break; }
          Op ow = mk(O_WIDEN);
          acc->apply(ow, nw.get());
          n_ops++;
        }
        if (!stationary)
          vp::viol("wrapped_int:pair:C05:widening-chain-not-stationary", spec,
                   "[wrapped_interval_domain] A: " + path_names(pool[i].second) + "  B: " + path_names(pool[j].second) +
                       " => acc := A; repeat acc := acc || (acc | B) is not stationary after 100 steps; acc = " + acc->print());
      } catch (std::runtime_error &e) {
        vp::viol("wrapped_int:pair:abort", spec, e.what());
      }
    }
  }
}

} // namespace

int main(int argc, char **argv) {
  vp::parse_args(argc, argv);
  vp::install_crash_handler();
  quiet_crab();
  bool th = vp::args().thorough();
  int depth_core = vp::args().opt.count("depth-core") ? atoi(vp::args().opt["depth-core"].c_str()) : (th ? 7 : 6);
  int depth_ext = vp::args().opt.count("depth-ext") ? atoi(vp::args().opt["depth-ext"].c_str()) : (th ? 5 : 4);
  build_alphabet();
  DOM = find_domain("wrapped_int");
  if (!DOM) { fprintf(stderr, "domain wrapped_int not registered\n"); return 2; }

  if (!vp::args().replay.empty() && vp::args().replay[0] == 'c') {
    // the pool is deterministic: rebuild it and re-run the row of the pair
    auto f = vp::split(vp::args().replay, '|');
    vp::args().nslices = 100000;
    vp::args().slice = (unsigned)atoi(f[1].c_str());
    run_chains();
    vp::finish();
    return 0;
  }
  if (!vp::args().replay.empty()) {
    auto f = vp::split(vp::args().replay, '|');
    std::vector<int> path, p;
    for (auto &t : vp::split(f[1], '.')) path.push_back(atoi(t.c_str()));
    Node n = initial_node();
    for (int oi : path) {
      p.push_back(oi);
      if (apply_op(ALPHA[oi], n, p) != ST_OK) break;
      check_reg(n.r[0], p);
    }
    vp::finish();
    return 0;
  }

  if (vp::args().check == "C05") {
    run_chains();
    vp::stat("states", n_nodes);
    vp::stat("transitions", n_ops);
    vp::stat("traces_validated_against_impl", n_nodes);
    vp::stat("evaluations", n_nodes);
    vp::finish();
    return 0;
  }
  uint64_t unit = 0;
  bool cut = false;
  for (int phase = 0; phase < 2 && !cut; phase++) {
    MAXD = phase == 0 ? depth_ext : depth_core;
    int maxtier = phase == 0 ? 1 : 0;
    for (int o1 = 0; o1 < (int)ALPHA.size() && !cut; o1++) {
      if (ALPHA[o1].tier > maxtier) continue;
      for (int o2 = 0; o2 < (int)ALPHA.size(); o2++) {
        if (ALPHA[o2].tier > maxtier) continue;
        if (!vp::mine(unit++)) continue;
        if (vp::past_deadline()) { vp::incomplete("phase " + std::to_string(phase)); cut = true; break; }
        seen.clear();
        Node n = initial_node();
        std::vector<int> path = {o1};
        vp::set_case("h|" + path_str(path));
        if (apply_op(ALPHA[o1], n, path) != ST_OK) continue;
        if (o2 == 0) {
          n_nodes++;
          check_reg(n.r[0], path);
        }
        if (MAXD >= 2) dfs(n, 1, path, o2, o2 + 1, maxtier);
      }
    }
  }
  vp::stat("states", n_nodes);
  vp::stat("transitions", n_ops);
  vp::stat("traces_validated_against_impl", n_nodes);
  vp::stat("evaluations", n_nodes);
  vp::stat("member_checks", n_member);
  vp::stat("subtrees_pruned_as_seen", n_pruned);
  vp::stat("witnesses_left_model", n_dropped);
  vp::stat("distinct_nontrivial", (long long)distinct_states.size());
  vp::finish();
  return 0;
}
