// C14 — array domains: bounded-exhaustive exploration of operation histories
// over two arrays (uniform element size 4, 6 cells each) and three scalars,
// executed on the REAL array domain and on a set of concrete witnesses
// (scalar values + cell contents).  After every step each witness must be
// described by the abstract state: scalars through the exported views, cells
// through loads (constant index for every cell, and the symbolic index i).
#include "common/dombox_impl.hpp"
#include "common/histops.hpp"
#include "common/proto.hpp"

#include <array>
#include <sys/wait.h>
#include <unistd.h>
#include <functional>
#include <unordered_map>

using namespace vb;
using vh::cst;
using vh::lin;
using vh::Val;

namespace {

const int NC = 6;   // cells per array
const long ES = 4;  // element size in bytes
const std::vector<int> SCALARS = {VX, VY, VI};

const long UNDEF = -777; // a cell that was never written since the array was made: reading it is outside the model
struct AW { // concrete witness
  Val s;
  std::array<long, NC> a, a2, sc; // sc: the single-cell array S (only cell 0 is ever used)
  // Taint (known finding F-AA-UNTRACKED): bit k of tcell[arr] is set once the written cell k was not tracked by the
  // adaptive domain (no cell, array not smashed); it follows the value through loads, stores and assignments.
  uint32_t tcell[3] = {0, 0, 0};
  uint32_t tvar = 0;
  bool operator<(const AW &o) const {
    if (!(s == o.s)) return s < o.s;
    if (a != o.a) return a < o.a;
    if (a2 != o.a2) return a2 < o.a2;
    if (sc != o.sc) return sc < o.sc;
    if (tvar != o.tvar) return tvar < o.tvar;
    for (int i = 0; i < 3; i++)
      if (tcell[i] != o.tcell[i]) return tcell[i] < o.tcell[i];
    return false;
  }
  bool operator==(const AW &o) const { return !(*this < o) && !(o < *this); }
};
typedef std::vector<AW> AWSet;
void norm(AWSet &w) {
  std::sort(w.begin(), w.end());
  w.erase(std::unique(w.begin(), w.end()), w.end());
  if (w.size() > 512) w.resize(512);
}
std::string wstr(const AW &w) {
  std::string s = "{x=" + std::to_string(w.s.v[VX]) + ",y=" + std::to_string(w.s.v[VY]) + ",i=" + std::to_string(w.s.v[VI]) + ",A=[";
  for (int k = 0; k < NC; k++) s += (k ? "," : "") + (w.a[k] == UNDEF ? std::string("?") : std::to_string(w.a[k]));
  s += "],A2=[";
  for (int k = 0; k < NC; k++) s += (k ? "," : "") + (w.a2[k] == UNDEF ? std::string("?") : std::to_string(w.a2[k]));
  return s + "],S=[" + (w.sc[0] == UNDEF ? std::string("?") : std::to_string(w.sc[0])) + "]" + (w.tvar || w.tcell[0] || w.tcell[1] || w.tcell[2] ? ",tainted" : "") + "}";
}

enum Eng { E_NONE = 0, E_COPY, E_SWAP, E_JOIN, E_WIDEN, E_MEET };
struct AOp {
  std::string name;
  Op op;       // abstract operation (kind -1: engine op)
  int eng = E_NONE;
  int tier = 0;
};
std::vector<AOp> ALPHA;

Op mk(int kind) { Op o; o.kind = kind; return o; }
void add(const std::string &n, Op o, int tier = 0) { AOp a; a.name = n; a.op = o; a.tier = tier; o.name = n; ALPHA.push_back(a); }
void add_eng(const std::string &n, int e, int tier = 0) { AOp a; a.name = n; a.op.kind = -1; a.eng = e; a.tier = tier; ALPHA.push_back(a); }

Op arr_init(int arr, long lb, long ub, long val) { Op o = mk(O_ARR_INIT); o.v0 = arr; o.k = ES; o.e = lin({}, lb); o.e2 = lin({}, ub); o.e3 = lin({}, val); return o; }
Op arr_store(int arr, LinExp idx, LinExp val, bool strong) { Op o = mk(O_ARR_STORE); o.v0 = arr; o.k = ES; o.e = idx; o.e2 = val; o.a = strong; return o; }
Op arr_range(int arr, LinExp lb, LinExp ub, LinExp val) { Op o = mk(O_ARR_STORE_RANGE); o.v0 = arr; o.k = ES; o.e = lb; o.e2 = ub; o.e3 = val; return o; }
Op arr_load(int lhs, int arr, LinExp idx) { Op o = mk(O_ARR_LOAD); o.v0 = lhs; o.v1 = arr; o.k = ES; o.e = idx; return o; }
Op arr_assign(int dst, int src) { Op o = mk(O_ARR_ASSIGN); o.v0 = dst; o.v1 = src; return o; }
Op assign(int x, LinExp e) { Op o = mk(O_ASSIGN); o.v0 = x; o.e = e; return o; }
Op assume(LinCst c) { Op o = mk(O_ASSUME); o.c = c; return o; }
Op assume2(LinCst c, LinCst c2) { Op o = mk(O_ASSUME2); o.c = c; o.c2 = c2; return o; }
Op forget(int x) { Op o = mk(O_FORGET); o.v0 = x; return o; }

void build_alphabet(bool thorough) {
  ALPHA.clear();
  // tier 0: core
  add("init(A,[0,23],0)", arr_init(VA, 0, 23, 0));
  add("init(A,[0,7],5)", arr_init(VA, 0, 7, 5));
  add("A[0]:=1", arr_store(VA, lin({}, 0), lin({}, 1), false));
  add("A[4]:=2", arr_store(VA, lin({}, 4), lin({}, 2), false));
  add("A[8]:=x", arr_store(VA, lin({}, 8), lin({{1, VX}}), false));
  add("A[i]:=3", arr_store(VA, lin({{1, VI}}), lin({}, 3), false));
  add("A[i]:=x", arr_store(VA, lin({{1, VI}}), lin({{1, VX}}), false));
  add("A[i+4]:=7", arr_store(VA, lin({{1, VI}}, 4), lin({}, 7), false));
  add("A[0..7]:=9", arr_range(VA, lin({}, 0), lin({}, 7), lin({}, 9)));
  add("A[4..15]:=6", arr_range(VA, lin({}, 4), lin({}, 15), lin({}, 6)));
  add("A2:=A", arr_assign(VA2, VA));
  add("x:=A[0]", arr_load(VX, VA, lin({}, 0)));
  add("x:=A[i]", arr_load(VX, VA, lin({{1, VI}})));
  add("y:=A[8]", arr_load(VY, VA, lin({}, 8)));
  add("x:=A2[4]", arr_load(VX, VA2, lin({}, 4)));
  add("i:=0", assign(VI, lin({}, 0)));
  add("i:=i+4", assign(VI, lin({{1, VI}}, 4)));
  add("i:=nondet{0,4,8}", forget(VI)); // followed by the assumption 0<=i<=8 (see apply)
  add("x:=x+1", assign(VX, lin({{1, VX}}, 1)));
  // S is an array with a single cell: the only place where the client may flag a store as a strong update
  add("S[0]:=x strong", arr_store(VS, lin({}, 0), lin({{1, VX}}), true));
  add("S[0]:=1", arr_store(VS, lin({}, 0), lin({}, 1), false));
  add("y:=S[0]", arr_load(VY, VS, lin({}, 0)));
  add_eng("save", E_COPY);
  add_eng("join(saved)", E_JOIN);
  add_eng("widen(saved)", E_WIDEN);
  // tier 1: extended
  add("init(A2,[0,23],1)", arr_init(VA2, 0, 23, 1), 1);
  add("A[12]:=y", arr_store(VA, lin({}, 12), lin({{1, VY}}), false), 1);
  add("A2[i]:=4", arr_store(VA2, lin({{1, VI}}), lin({}, 4), false), 1);
  add("A2[4]:=x", arr_store(VA2, lin({}, 4), lin({{1, VX}}), false), 1);
  add("A[i..23]:=8", arr_range(VA, lin({{1, VI}}), lin({}, 23), lin({}, 8)), 1);
  add("A[0..i+3]:=8", arr_range(VA, lin({}, 0), lin({{1, VI}}, 3), lin({}, 8)), 1);
  add("A[0..23]:=x", arr_range(VA, lin({}, 0), lin({}, 23), lin({{1, VX}})), 1);
  add("A:=A2", arr_assign(VA, VA2), 1);
  add("y:=A[i+4]", arr_load(VY, VA, lin({{1, VI}}, 4)), 1);
  add("y:=A2[i]", arr_load(VY, VA2, lin({{1, VI}})), 1);
  add("i:=4", assign(VI, lin({}, 4)), 1);
  add("x:=0", assign(VX, lin({}, 0)), 1);
  add("assume(i<=4)", assume(cst({{1, VI}}, -4, C_LEQ)), 1);
  add("assume(i>=4)", assume(cst({{-1, VI}}, 4, C_LEQ)), 1);
  add("assume(x<=y)", assume(cst({{1, VX}, {-1, VY}}, 0, C_LEQ)), 1);
  add("forget(x)", forget(VX), 1);
  add_eng("swap", E_SWAP, 1);
  add_eng("meet(saved)", E_MEET, 1);
  (void)thorough;
}

// ---- concrete semantics --------------------------------------------------------------
bool cell_of(long off, int &k) {
  if (off < 0 || off % ES != 0) return false;
  k = (int)(off / ES);
  return k < NC;
}
// returns false if the witness leaves the model (index out of the 6 cells, misaligned, overflow)
bool cstep(const AOp &a, const AW &in, std::vector<AW> &out) {
  const Op &o = a.op;
  AW w = in;
  auto arr = [&](AW &x, int v) -> std::array<long, NC> & { return v == VA ? x.a : (v == VA2 ? x.a2 : x.sc); };
  auto ai = [](int v) { return v == VA ? 0 : (v == VA2 ? 1 : 2); };
  auto etaint = [&](const LinExp &e) { for (auto &t : e.terms) if (in.tvar & (1u << t.second)) return true; return false; };
  auto setbit = [](uint32_t &m, int k, bool b) { if (b) m |= (1u << k); else m &= ~(1u << k); };
  switch (o.kind) {
  case O_ARR_INIT:
  case O_ARR_STORE_RANGE: {
    long lb = o.e.eval(in.s.v.data()), ub = o.e2.eval(in.s.v.data()), val = o.e3.eval(in.s.v.data());
    if (lb % ES != 0 || lb < 0) return false;
    // only ranges on which "k < ub" and "k <= ub" agree are used: ub % ES != 0
    if (ub % ES == 0) return false;
    if (ub >= NC * ES) return false;
    if (o.kind == O_ARR_INIT) { arr(w, o.v0).fill(UNDEF); w.tcell[ai(o.v0)] = 0; } // a fresh array: only the initialised range is defined
    for (long k = lb; k <= ub; k += ES) { arr(w, o.v0)[k / ES] = val; setbit(w.tcell[ai(o.v0)], (int)(k / ES), etaint(o.e3)); }
    out.push_back(w);
    return true;
  }
  case O_ARR_STORE: {
    int k;
    if (!cell_of(o.e.eval(in.s.v.data()), k)) return false;
    arr(w, o.v0)[k] = o.e2.eval(in.s.v.data());
    setbit(w.tcell[ai(o.v0)], k, etaint(o.e2));
    out.push_back(w);
    return true;
  }
  case O_ARR_LOAD: {
    int k;
    if (!cell_of(o.e.eval(in.s.v.data()), k)) return false;
    if (arr(w, o.v1)[k] == UNDEF) return false; // read of a never-written cell
    w.s.v[o.v0] = arr(w, o.v1)[k];
    setbit(w.tvar, o.v0, (in.tcell[ai(o.v1)] >> k) & 1);
    out.push_back(w);
    return true;
  }
  case O_ARR_ASSIGN: arr(w, o.v0) = arr(w, o.v1); w.tcell[ai(o.v0)] = in.tcell[ai(o.v1)]; out.push_back(w); return true;
  case O_ASSIGN: w.s.v[o.v0] = o.e.eval(in.s.v.data()); setbit(w.tvar, o.v0, etaint(o.e)); out.push_back(w); return true;
  case O_ASSUME: if (o.c.holds(in.s.v.data())) out.push_back(w); return true;
  case O_FORGET:
    setbit(w.tvar, o.v0, false);
    if (o.v0 == VI) {
      for (long q : {0L, 4L, 8L}) { w.s.v[VI] = q; out.push_back(w); }
    } else {
      for (long q : {-3L, 0L, 2L}) { w.s.v[o.v0] = q; out.push_back(w); }
    }
    return true;
  default: return false;
  }
}

// ---- nodes ---------------------------------------------------------------------------------
struct Reg {
  std::unique_ptr<DomBox> box;
  AWSet W;
};
struct Node {
  Reg r[2];
  Node() {}
  Node(const Node &o) {
    for (int i = 0; i < 2; i++) {
      r[i].box = o.r[i].box->clone();
      r[i].W = o.r[i].W;
    }
  }
  Node &operator=(const Node &o) {
    for (int i = 0; i < 2; i++) {
      r[i].box = o.r[i].box->clone();
      r[i].W = o.r[i].W;
    }
    return *this;
  }
};

const DomEntry *DOM = nullptr;
std::string DOMNAME, CFGNAME;
int MAXD = 3;
long long n_nodes = 0, n_ops = 0, n_member = 0, n_probes = 0, n_pruned = 0, n_bottom = 0, n_dropped = 0;
std::set<uint64_t> distinct_states;

AWSet initial_witnesses() {
  AWSet W;
  long sc[3][3] = {{0, 0, 0}, {3, -1, 4}, {-2, 5, 8}};
  for (auto &s : sc)
    for (int variant = 0; variant < 1; variant++) {
      AW w;
      w.s.v.fill(0);
      w.s.v[VX] = s[0];
      w.s.v[VY] = s[1];
      w.s.v[VI] = s[2];
      (void)variant;
      w.a.fill(UNDEF);
      w.a2.fill(UNDEF);
      w.sc.fill(UNDEF);
      W.push_back(w);
    }
  norm(W);
  return W;
}
Node initial_node() {
  Node n;
  for (int i = 0; i < 2; i++) {
    n.r[i].box = DOM->make_top();
    n.r[i].W = initial_witnesses();
  }
  return n;
}

std::string path_str(const std::vector<int> &p) {
  std::string s;
  for (size_t i = 0; i < p.size(); i++) s += (i ? "." : "") + std::to_string(p[i]);
  return s;
}
std::string path_names(const std::vector<int> &p) {
  std::string s;
  for (size_t i = 0; i < p.size(); i++) s += (i ? " ; " : "") + ALPHA[p[i]].name;
  return s;
}
void report(const std::string &clause, const std::vector<int> &path, const std::string &detail) {
  vp::viol(DOMNAME + ":" + clause, "h|" + DOMNAME + "|" + CFGNAME + "|" + path_str(path),
           "[" + DOMNAME + " " + CFGNAME + "] " + path_names(path) + " => " + detail);
}

// membership of every witness of a register
void check_reg(const Reg &r, const std::vector<int> &path, const char *which) {
  if (r.W.empty()) return;
  if (r.box->is_bottom()) {
    n_bottom++;
    report(std::string("bottom-but-reached") + which, path, "state is bottom but " + wstr(r.W[0]) + " is a concrete state of this history");
    return;
  }
  // scalars
  std::vector<Itv> at;
  for (int v : SCALARS) at.push_back(r.box->at(v));
  std::vector<LinCst> cs = r.box->csts();
  for (auto &w : r.W) {
    n_member++;
    for (size_t i = 0; i < SCALARS.size(); i++)
      if (!at[i].contains(w.s.v[SCALARS[i]])) {
        report(std::string("scalar:M3:interval-misses-value") + which + ((w.tvar >> SCALARS[i]) & 1 ? ":untracked-written-cell" : ""), path,
               r.box->print() + " : at(" + var_name(SCALARS[i]) + ")=" + at[i].str() + " misses " + wstr(w));
        return;
      }
    for (auto &c : cs) {
      if (c.big) continue;
      bool only_scalars = true;
      for (auto &t : c.e.terms)
        if (std::find(SCALARS.begin(), SCALARS.end(), t.second) == SCALARS.end()) only_scalars = false;
      if (only_scalars && !c.holds(w.s.v.data())) {
        bool tainted = false;
        for (auto &t : c.e.terms) tainted = tainted || ((w.tvar >> t.second) & 1);
        report(std::string("scalar:M1:exported-constraint-false") + which + (tainted ? ":untracked-written-cell" : ""), path, r.box->print() + " : " + c.str() + " is false in " + wstr(w));
        return;
      }
    }
  }
  // cells: constant-index loads of every cell, and the load at the symbolic index i
  for (int arrv : {VA, VA2, VS}) {
    for (int k = -1; k < (arrv == VS ? 1 : NC); k++) {
      if (arrv == VS && k < 0) continue;
      std::unique_ptr<DomBox> p = r.box->clone();
      Op ld = arr_load(VT1, arrv, k < 0 ? lin({{1, VI}}) : lin({}, k * ES));
      p->apply(ld, nullptr);
      n_probes++;
      bool pb = p->is_bottom();
      Itv v = pb ? Itv() : p->at(VT1);
      for (auto &w : r.W) {
        int cell = k;
        if (k < 0 && !cell_of(w.s.v[VI], cell)) continue;
        long cv = arrv == VA ? w.a[cell] : (arrv == VA2 ? w.a2[cell] : w.sc[cell]);
        if (cv == UNDEF) continue;
        const char *tag = ((w.tcell[arrv == VA ? 0 : (arrv == VA2 ? 1 : 2)] >> cell) & 1) ? ":untracked-written-cell" : "";
        if (pb) {
          report(std::string("load-makes-bottom") + which, path,
                 r.box->print() + " : load " + var_name(arrv) + "[" + (k < 0 ? "i" : std::to_string(k * ES)) + "] gives bottom; concrete state " + wstr(w));
          return;
        }
        if (!v.contains(cv)) {
          report(std::string(k < 0 ? "cell:symbolic-load-misses-value" : "cell:load-misses-value") + which + tag, path,
                 r.box->print() + " : load " + var_name(arrv) + "[" + (k < 0 ? "i" : std::to_string(k * ES)) + "] = " + v.str() + " misses the cell value " +
                     std::to_string(cv) + " of " + wstr(w));
          return;
        }
      }
    }
  }
}

// F-AA-UNTRACKED: mark written cells that the adaptive domain does not track (array not smashed and no cell printed)
void mark_untracked(Reg &r) {
  if (DOMNAME.rfind("aa_", 0) != 0 || r.W.empty() || r.box->is_bottom()) return;
  std::string pr = r.box->print();
  const char *names[3] = {"A", "A2", "S"};
  bool changed = false;
  for (int ai = 0; ai < 3; ai++) {
    if (pr.find(std::string(names[ai]) + ".smashed") != std::string::npos) continue;
    for (int k = 0; k < NC; k++) {
      std::string cell = std::string(names[ai]) + "[" + std::to_string(k * ES) + "..." + std::to_string(k * ES + ES - 1) + "]";
      size_t pos = pr.find(cell);
      bool tracked = pos != std::string::npos && (pos == 0 || !isalnum((unsigned char)pr[pos - 1]));
      if (tracked) continue;
      for (auto &w : r.W) {
        long cv = ai == 0 ? w.a[k] : (ai == 1 ? w.a2[k] : w.sc[k]);
        if (cv != UNDEF && !((w.tcell[ai] >> k) & 1)) { w.tcell[ai] |= (1u << k); changed = true; }
      }
    }
  }
  if (changed) norm(r.W);
}

enum Status { ST_OK, ST_SKIP };
Status apply_op(const AOp &a, Node &n, const std::vector<int> &path) {
  n_ops++;
  try {
    switch (a.eng) {
    case E_COPY: n.r[1].box = n.r[0].box->clone(); n.r[1].W = n.r[0].W; return ST_OK;
    case E_SWAP: std::swap(n.r[0], n.r[1]); return ST_OK;
    case E_JOIN:
    case E_WIDEN: {
      Op o = mk(a.eng == E_JOIN ? O_JOIN : O_WIDEN);
      // widening: left = older (saved), right = current
      if (a.eng == E_WIDEN) {
        std::unique_ptr<DomBox> l = n.r[1].box->clone();
        l->apply(o, n.r[0].box.get());
        n.r[0].box = std::move(l);
      } else
        n.r[0].box->apply(o, n.r[1].box.get());
      n.r[0].W.insert(n.r[0].W.end(), n.r[1].W.begin(), n.r[1].W.end());
      norm(n.r[0].W);
      return ST_OK;
    }
    case E_MEET: {
      Op o = mk(O_MEET);
      n.r[0].box->apply(o, n.r[1].box.get());
      AWSet both;
      std::set_intersection(n.r[0].W.begin(), n.r[0].W.end(), n.r[1].W.begin(), n.r[1].W.end(), std::back_inserter(both));
      n.r[0].W = both;
      return ST_OK;
    }
    default: break;
    }
    n.r[0].box->apply(a.op, nullptr);
    if (a.op.kind == O_FORGET && a.op.v0 == VI) { // i := nondet in [0,8]
      n.r[0].box->apply(assume2(cst({{-1, VI}}, 0, C_LEQ), cst({{1, VI}}, -8, C_LEQ)), nullptr);
    }
    AWSet nw;
    for (auto &w : n.r[0].W) {
      std::vector<AW> out;
      if (!cstep(a, w, out)) { n_dropped++; continue; }
      nw.insert(nw.end(), out.begin(), out.end());
    }
    norm(nw);
    n.r[0].W = nw;
    return ST_OK;
  } catch (std::runtime_error &e) {
    report("abort", path, std::string("operation aborts: ") + e.what());
    return ST_SKIP;
  }
}

std::unordered_map<uint64_t, int> seen; // state key -> remaining depth already explored
uint64_t state_key(const Node &n) {
  std::string s;
  for (int i = 0; i < 2; i++) {
    s += n.r[i].box->repr();
    s += "#";
    for (auto &w : n.r[i].W) s += wstr(w);
    s += "|";
  }
  return vp::fnv(s);
}

void dfs(Node &n, int depth, std::vector<int> &path, int lo, int hi, int maxtier) {
  if (depth >= MAXD) return;
  for (int oi = lo; oi < hi; oi++) {
    if (ALPHA[oi].tier > maxtier) continue;
    Node m = n;
    path.push_back(oi);
    vp::set_case("h|" + DOMNAME + "|" + CFGNAME + "|" + path_str(path));
    Status st = apply_op(ALPHA[oi], m, path);
    if (st == ST_OK) {
      n_nodes++;
      try {
        mark_untracked(m.r[0]);
        check_reg(m.r[0], path, "");
      } catch (std::runtime_error &e) {
        report("abort", path, std::string("probe aborts: ") + e.what());
      }
      uint64_t key = state_key(m);
      if (distinct_states.size() < 2000000) distinct_states.insert(key);
      int remaining = MAXD - depth - 1;
      auto it = seen.find(key);
      if (it != seen.end() && it->second >= remaining)
        n_pruned++;
      else {
        seen[key] = remaining;
        if (vp::want_sample() && depth == MAXD - 1 && m.r[0].W.size() > 3) vp::sample("[" + DOMNAME + " " + CFGNAME + "] " + path_names(path) + " : " + m.r[0].box->print());
        dfs(m, depth + 1, path, 0, (int)ALPHA.size(), maxtier);
      }
    }
    path.pop_back();
  }
}

// counters of one forked unit (the driver sums STAT records)
void print_stats() {
  printf("STAT\tstates\t%lld\n", n_nodes);
  printf("STAT\ttransitions\t%lld\n", n_ops);
  printf("STAT\ttraces_validated_against_impl\t%lld\n", n_nodes);
  printf("STAT\tevaluations\t%lld\n", n_nodes);
  printf("STAT\tmember_checks\t%lld\n", n_member);
  printf("STAT\tcell_load_probes\t%lld\n", n_probes);
  printf("STAT\tsubtrees_pruned_as_seen\t%lld\n", n_pruned);
  printf("STAT\tbottom_states\t%lld\n", n_bottom);
  printf("STAT\twitnesses_left_model\t%lld\n", n_dropped);
  printf("STAT\tdistinct_nontrivial\t%lld\n", (long long)distinct_states.size());
  printf("STAT\tviolations_in_unit\t%lld\n", vp::nviol());
}

} // namespace

int main(int argc, char **argv) {
  vp::parse_args(argc, argv);
  vp::install_crash_handler();
  quiet_crab();
  bool th = vp::args().thorough();
  std::string only = vp::args().opt.count("domains") ? vp::args().opt["domains"] : "";
  int depth_core = vp::args().opt.count("depth-core") ? atoi(vp::args().opt["depth-core"].c_str()) : (th ? 5 : 4);
  int depth_ext = vp::args().opt.count("depth-ext") ? atoi(vp::args().opt["depth-ext"].c_str()) : 3;
  build_alphabet(th);

  if (!vp::args().replay.empty()) {
    auto f = vp::split(vp::args().replay, '|');
    DOM = find_domain(f[1]);
    if (!DOM) { fprintf(stderr, "unknown domain\n"); return 2; }
    DOMNAME = f[1];
    CFGNAME = f[2];
    for (auto &c : DOM->configs_thorough)
      if (c.name == CFGNAME) apply_config(c);
    for (auto &c : DOM->configs_quick)
      if (c.name == CFGNAME) apply_config(c);
    std::vector<int> path, p;
    for (auto &t : vp::split(f[3], '.')) path.push_back(atoi(t.c_str()));
    Node n = initial_node();
    for (int oi : path) {
      p.push_back(oi);
      if (apply_op(ALPHA[oi], n, p) != ST_OK) break;
      mark_untracked(n.r[0]);
      check_reg(n.r[0], p, "");
    }
    vp::finish();
    return 0;
  }

  uint64_t unit = 0;
  bool cut = false;
  for (auto &e : registry()) {
    if (cut) break;
    if (!only.empty() && ("," + only + ",").find("," + e.name + ",") == std::string::npos) continue;
    if (!(e.caps & CAP_ARRAY)) continue;
    if (e.caps & CAP_REGION) continue; // region domain over arrays: C15
    DOM = &e;
    DOMNAME = e.name;
    const std::vector<Config> &cfgs = th ? e.configs_thorough : e.configs_quick;
    for (auto &cfg : cfgs) {
      if (cut) break;
      apply_config(cfg);
      CFGNAME = cfg.name;
      // phase 0: whole alphabet to depth_ext; phase 1: core alphabet to depth_core.
      // The unit of work distributed over the slices is (phase, first op, second op).
      for (int phase = 0; phase < 2 && !cut; phase++) {
        MAXD = phase == 0 ? depth_ext : depth_core;
        int maxtier = phase == 0 ? 1 : 0;
        for (int o1 = 0; o1 < (int)ALPHA.size() && !cut; o1++) {
          if (ALPHA[o1].tier > maxtier) continue;
          for (int o2 = 0; o2 < (int)ALPHA.size(); o2++) {
            if (ALPHA[o2].tier > maxtier) continue;
            if (!vp::mine(unit++)) continue;
            if (vp::past_deadline()) { vp::incomplete(DOMNAME + " " + CFGNAME + " phase " + std::to_string(phase)); cut = true; break; }
            // Each unit runs in a forked child: the domains create fresh (ghost / temporary) variable names for every
            // symbolic load, and the variable factory never releases them, so a long-lived process grows without bound.
            fflush(stdout);
            pid_t pid = fork();
            if (pid == 0) {
              seen.clear();
              Node n = initial_node();
              std::vector<int> path = {o1};
              vp::set_case("h|" + DOMNAME + "|" + CFGNAME + "|" + path_str(path));
              if (apply_op(ALPHA[o1], n, path) == ST_OK) {
                mark_untracked(n.r[0]);
                if (o2 == 0) { // the depth-1 node is checked once
                  n_nodes++;
                  check_reg(n.r[0], path, "");
                }
                if (MAXD >= 2) dfs(n, 1, path, o2, o2 + 1, maxtier);
              }
              print_stats();
              fflush(stdout);
              _exit(0);
            }
            int status = 0;
            waitpid(pid, &status, 0);
          }
        }
      }
    }
  }
  vp::finish();
  return 0;
}
