// C19 — environment maps (separate_domain) and patricia-tree sets behave as
// their mathematical counterparts: every operation history up to a depth over
// two registers and adversarial key indices, compared with std::map / std::set.
#include "common/proto.hpp"

#include <crab/domains/discrete_domains.hpp>
#include <crab/domains/interval.hpp>
#include <crab/domains/patricia_trees.hpp>
#include <crab/domains/separate_domains.hpp>
#include <crab/fixpoint/thresholds.hpp>
#include <crab/support/debug.hpp>

#include <map>
#include <set>

using namespace ikos;
typedef unsigned long long ull;
typedef interval<z_number> itv_t;
typedef bound<z_number> bnd_t;

struct Key : public crab::indexable {
  ull i;
  Key() : i(0) {}
  explicit Key(ull x) : i(x) {}
  ikos::index_t index() const override { return i; }
  void write(crab::crab_os &o) const override { o << "k" << std::to_string(i); }
  bool operator<(const Key &o) const { return i < o.i; }
  bool operator==(const Key &o) const { return i == o.i; }
};
inline crab::crab_os &operator<<(crab::crab_os &o, const Key &k) {
  k.write(o);
  return o;
}

typedef separate_domain<Key, itv_t> env_t;

static std::vector<ull> KEYS, FRESH;
static std::vector<itv_t> VALS;
static std::vector<std::string> VALN;

// ---------------- reference environment: total map with default top ---------
struct RefEnv {
  bool bottom = false;
  std::map<ull, itv_t> m; // only non-top, non-bottom values
  itv_t at(ull k) const {
    if (bottom) return itv_t::bottom();
    auto it = m.find(k);
    return it == m.end() ? itv_t::top() : it->second;
  }
  void set(ull k, const itv_t &v) {
    if (bottom) return;
    if (v.is_bottom()) {
      bottom = true;
      m.clear();
    } else if (v.is_top())
      m.erase(k);
    else
      m[k] = v;
  }
};
static bool itv_eq(const itv_t &a, const itv_t &b) {
  if (a.is_bottom() || b.is_bottom()) return a.is_bottom() && b.is_bottom();
  return a.lb() == b.lb() && a.ub() == b.ub();
}
template <typename F> static RefEnv pointwise(const RefEnv &a, const RefEnv &b, F f) {
  RefEnv r;
  std::set<ull> ks;
  for (auto &kv : a.m) ks.insert(kv.first);
  for (auto &kv : b.m) ks.insert(kv.first);
  for (ull k : ks) {
    r.set(k, f(a.at(k), b.at(k)));
    if (r.bottom) break;
  }
  return r;
}
static bool ref_leq(const RefEnv &a, const RefEnv &b) {
  if (a.bottom) return true;
  if (b.bottom) return false;
  for (auto &kv : b.m)
    if (!(a.at(kv.first) <= kv.second)) return false;
  return true;
}

static std::string show_env(const env_t &e) {
  crab::crab_string_os os;
  os << e;
  return os.str();
}
static std::string show_ref(const RefEnv &r) {
  if (r.bottom) return "_|_";
  std::string s = "{";
  for (auto &kv : r.m) {
    crab::crab_string_os os;
    os << kv.second;
    s += "k" + std::to_string(kv.first) + "->" + os.str() + ";";
  }
  return s + "}";
}

struct EState {
  env_t e[2];
  RefEnv r[2];
};

struct EOp {
  std::string name;
  // applies to register reg (other = 1-reg); returns false if not applicable
  std::function<bool(EState &, int reg)> run;
};

static std::vector<EOp> env_ops() {
  std::vector<EOp> ops;
  for (size_t ki = 0; ki < KEYS.size(); ki++)
    for (size_t vi = 0; vi < VALS.size(); vi++) {
      ull k = KEYS[ki];
      itv_t v = VALS[vi];
      ops.push_back({"set(k" + std::to_string(k) + "," + VALN[vi] + ")", [k, v](EState &s, int g) {
                       s.e[g].set(Key(k), v);
                       s.r[g].set(k, v);
                       return true;
                     }});
    }
  for (size_t ki = 0; ki < KEYS.size(); ki++) {
    ull k = KEYS[ki];
    for (size_t vi : {(size_t)0, (size_t)2}) {
      itv_t v = VALS[vi];
      ops.push_back({"join(k" + std::to_string(k) + "," + VALN[vi] + ")", [k, v](EState &s, int g) {
                       s.e[g].join(Key(k), v);
                       if (!s.r[g].bottom) s.r[g].set(k, s.r[g].at(k) | v);
                       return true;
                     }});
    }
    ops.push_back({"forget(k" + std::to_string(k) + ")", [k](EState &s, int g) {
                     s.e[g] -= Key(k);
                     if (!s.r[g].bottom) s.r[g].m.erase(k);
                     return true;
                   }});
  }
  ops.push_back({"join", [](EState &s, int g) {
                   s.e[g] = s.e[g] | s.e[1 - g];
                   if (s.r[g].bottom) s.r[g] = s.r[1 - g];
                   else if (!s.r[1 - g].bottom)
                     s.r[g] = pointwise(s.r[g], s.r[1 - g], [](const itv_t &a, const itv_t &b) { return a | b; });
                   return true;
                 }});
  ops.push_back({"meet", [](EState &s, int g) {
                   s.e[g] = s.e[g] & s.e[1 - g];
                   if (s.r[g].bottom || s.r[1 - g].bottom) { s.r[g] = RefEnv(); s.r[g].bottom = true; }
                   else s.r[g] = pointwise(s.r[g], s.r[1 - g], [](const itv_t &a, const itv_t &b) { return a & b; });
                   return true;
                 }});
  ops.push_back({"widening", [](EState &s, int g) {
                   s.e[g] = s.e[g] || s.e[1 - g];
                   if (s.r[g].bottom) s.r[g] = s.r[1 - g];
                   else if (!s.r[1 - g].bottom)
                     s.r[g] = pointwise(s.r[g], s.r[1 - g], [](const itv_t &a, const itv_t &b) { return a || b; });
                   return true;
                 }});
  ops.push_back({"widening_thresholds", [](EState &s, int g) {
                   crab::thresholds<z_number> ts(10);
                   ts.add(bnd_t(z_number(1)));
                   s.e[g] = s.e[g].widening_thresholds(s.e[1 - g], ts);
                   if (s.r[g].bottom) s.r[g] = s.r[1 - g];
                   else if (!s.r[1 - g].bottom)
                     s.r[g] = pointwise(s.r[g], s.r[1 - g], [&ts](const itv_t &a, const itv_t &b) { return a.widening_thresholds(b, ts); });
                   return true;
                 }});
  ops.push_back({"narrowing", [](EState &s, int g) {
                   s.e[g] = s.e[g] && s.e[1 - g];
                   if (s.r[g].bottom || s.r[1 - g].bottom) { s.r[g] = RefEnv(); s.r[g].bottom = true; }
                   else s.r[g] = pointwise(s.r[g], s.r[1 - g], [](const itv_t &a, const itv_t &b) { return a && b; });
                   return true;
                 }});
  ops.push_back({"copy", [](EState &s, int g) {
                   s.e[g] = s.e[1 - g];
                   s.r[g] = s.r[1 - g];
                   return true;
                 }});
  ops.push_back({"set_to_bottom", [](EState &s, int g) {
                   s.e[g].set_to_bottom();
                   s.r[g] = RefEnv();
                   s.r[g].bottom = true;
                   return true;
                 }});
  ops.push_back({"top", [](EState &s, int g) {
                   s.e[g] = env_t::top();
                   s.r[g] = RefEnv();
                   return true;
                 }});
  // project on key subsets
  for (int variant = 0; variant < 3; variant++)
    ops.push_back({"project" + std::to_string(variant), [variant](EState &s, int g) {
                     std::vector<Key> keep;
                     std::set<ull> keepi;
                     for (size_t i = 0; i < KEYS.size(); i++) {
                       bool in = variant == 0 ? (i == 0) : variant == 1 ? (i < 2) : (i + 1 < KEYS.size());
                       if (in) { keep.push_back(Key(KEYS[i])); keepi.insert(KEYS[i]); }
                     }
                     s.e[g].project(keep);
                     if (!s.r[g].bottom)
                       for (auto it = s.r[g].m.begin(); it != s.r[g].m.end();)
                         if (!keepi.count(it->first)) it = s.r[g].m.erase(it); else ++it;
                     return true;
                   }});
  // rename a key onto a fresh key (precondition: target not bound)
  for (size_t ki = 0; ki < KEYS.size() && ki < 3; ki++)
    for (size_t fi = 0; fi < FRESH.size(); fi++) {
      ull k = KEYS[ki], f = FRESH[fi];
      ops.push_back({"rename(k" + std::to_string(k) + "->k" + std::to_string(f) + ")", [k, f](EState &s, int g) {
                       if (!s.r[g].bottom && s.r[g].m.count(f)) return false;
                       s.e[g].rename({Key(k)}, {Key(f)});
                       if (!s.r[g].bottom) {
                         auto it = s.r[g].m.find(k);
                         if (it != s.r[g].m.end()) {
                           itv_t v = it->second;
                           s.r[g].m.erase(it);
                           s.r[g].m[f] = v;
                         }
                       }
                       return true;
                     }});
    }
  return ops;
}

static long long g_states = 0, g_nontriv = 0;

static bool env_check(const EState &s, const std::string &spec, const std::string &hist) {
  bool ok = true;
  for (int g = 0; g < 2; g++) {
    const env_t &e = s.e[g];
    const RefEnv &r = s.r[g];
    std::string ctx = hist + " => r" + std::to_string(g) + "=" + show_env(e) + " expected " + show_ref(r);
    if (e.is_bottom() != r.bottom) { vp::viol("separate_domain.is_bottom:wrong", spec, ctx); ok = false; continue; }
    if (e.is_top() != (!r.bottom && r.m.empty())) { vp::viol("separate_domain.is_top:wrong", spec, ctx); ok = false; }
    std::vector<ull> allk = KEYS;
    allk.insert(allk.end(), FRESH.begin(), FRESH.end());
    for (ull k : allk)
      if (!itv_eq(e.at(Key(k)), r.at(k))) { vp::viol("separate_domain.at:wrong", spec, ctx + " at k" + std::to_string(k)); ok = false; }
    if (!r.bottom) {
      std::map<ull, int> seen;
      for (auto it = e.begin(); it != e.end(); ++it) {
        seen[it->first.i]++;
        auto rit = r.m.find(it->first.i);
        if (rit == r.m.end() || !itv_eq(rit->second, it->second)) { vp::viol("separate_domain.iteration:wrong-binding", spec, ctx); ok = false; }
      }
      for (auto &kv : seen) if (kv.second != 1) { vp::viol("separate_domain.iteration:duplicate", spec, ctx); ok = false; }
      if (seen.size() != r.m.size()) { vp::viol("separate_domain.iteration:missing-binding", spec, ctx); ok = false; }
      if (!r.m.empty() && !e.is_top() && e.size() != r.m.size()) { vp::viol("separate_domain.size:wrong", spec, ctx); ok = false; }
    }
  }
  for (int g = 0; g < 2; g++) {
    bool le = s.e[g] <= s.e[1 - g], rle = ref_leq(s.r[g], s.r[1 - g]);
    if (le != rle) {
      vp::viol(std::string("separate_domain.leq:") + (le ? "wrong-yes" : "wrong-no"), spec,
               hist + " => " + show_env(s.e[g]) + " <= " + show_env(s.e[1 - g]) + " answered " + std::to_string(le));
      ok = false;
    }
  }
  if (!s.r[0].bottom && !s.r[1].bottom && !s.r[0].m.empty() && !s.r[1].m.empty()) g_nontriv++;
  bool eq = s.e[0] == s.e[1], req = ref_leq(s.r[0], s.r[1]) && ref_leq(s.r[1], s.r[0]);
  if (eq != req) { vp::viol("separate_domain.==:wrong", spec, hist + " => " + show_env(s.e[0]) + " == " + show_env(s.e[1])); ok = false; }
  return ok;
}

static void env_dfs(const EState &s, const std::vector<EOp> &ops, int depth, int maxd,
                    std::vector<int> &path, const std::string &prefix) {
  if (depth == maxd) return;
  for (size_t oi = 0; oi < ops.size(); oi++)
    for (int g = 0; g < 2; g++) {
      EState t = s;
      path.push_back((int)(oi * 2 + g));
      std::string spec = prefix;
      for (int p : path) spec += ":" + std::to_string(p);
      vp::set_case(spec);
      bool applicable = true;
      try {
        applicable = ops[oi].run(t, g);
      } catch (crab::verif::crab_error &e) {
        vp::viol("separate_domain.op:abort", spec, ops[oi].name + " aborts: " + e.what());
        path.pop_back();
        continue;
      }
      if (applicable) {
        vp::stat("transitions");
        vp::stat("evaluations");
        g_states++;
        std::string hist;
        if (true) {
          // history text only materialised on failure or for samples
        }
        bool ok;
        try {
          ok = env_check(t, spec, "");
        } catch (crab::verif::crab_error &e) {
          vp::viol("separate_domain.query:abort", spec, std::string("query aborts: ") + e.what());
          ok = false;
        }
        if (!ok) {
          std::string h;
          for (int p : path) h += "r" + std::to_string(p % 2) + "." + ops[p / 2].name + "; ";
          vp::viol("separate_domain:history", spec, h, 1);
        } else {
          if (vp::want_sample() && depth == maxd - 1 && !t.r[0].m.empty() && t.r[0].m.size() >= 2) {
            std::string h;
            for (int p : path) h += "r" + std::to_string(p % 2) + "." + ops[p / 2].name + "; ";
            vp::sample("separate_domain: " + h + " => r0=" + show_env(t.e[0]));
          }
          env_dfs(t, ops, depth + 1, maxd, path, prefix);
        }
      }
      path.pop_back();
    }
}

// ------------------------- patricia_tree_set / discrete_domain --------------
typedef patricia_tree_set<Key> pset_t;
typedef ikos::discrete_domain<Key> dd_t;
struct SState {
  pset_t p[2];
  dd_t d[2];
  std::set<ull> r[2];
  bool dtop[2] = {false, false};
  std::set<ull> dr[2];
};
static std::string show_set(const std::set<ull> &s) {
  std::string o = "{";
  for (ull k : s) o += std::to_string(k) + ",";
  return o + "}";
}
struct SOp {
  std::string name;
  std::function<void(SState &, int)> run;
};
static std::vector<SOp> set_ops() {
  std::vector<SOp> ops;
  for (ull k : KEYS) {
    ops.push_back({"add(" + std::to_string(k) + ")", [k](SState &s, int g) {
                     s.p[g] += Key(k); s.r[g].insert(k);
                     s.d[g] += Key(k); if (!s.dtop[g]) s.dr[g].insert(k);
                   }});
    ops.push_back({"remove(" + std::to_string(k) + ")", [k](SState &s, int g) {
                     s.p[g] -= Key(k); s.r[g].erase(k);
                     s.d[g] -= Key(k); if (!s.dtop[g]) s.dr[g].erase(k);
                   }});
  }
  ops.push_back({"union", [](SState &s, int g) {
                   s.p[g] = s.p[g] | s.p[1 - g];
                   s.r[g].insert(s.r[1 - g].begin(), s.r[1 - g].end());
                   s.d[g] = s.d[g] | s.d[1 - g];
                   if (s.dtop[g] || s.dtop[1 - g]) { s.dtop[g] = true; s.dr[g].clear(); }
                   else s.dr[g].insert(s.dr[1 - g].begin(), s.dr[1 - g].end());
                 }});
  ops.push_back({"union_with", [](SState &s, int g) {
                   s.p[g] |= s.p[1 - g];
                   s.r[g].insert(s.r[1 - g].begin(), s.r[1 - g].end());
                   s.d[g] |= s.d[1 - g];
                   if (s.dtop[g] || s.dtop[1 - g]) { s.dtop[g] = true; s.dr[g].clear(); }
                   else s.dr[g].insert(s.dr[1 - g].begin(), s.dr[1 - g].end());
                 }});
  auto inter = [](const std::set<ull> &a, const std::set<ull> &b) {
    std::set<ull> r;
    for (ull k : a) if (b.count(k)) r.insert(k);
    return r;
  };
  ops.push_back({"intersection", [inter](SState &s, int g) {
                   s.p[g] = s.p[g] & s.p[1 - g];
                   s.r[g] = inter(s.r[g], s.r[1 - g]);
                   s.d[g] = s.d[g] & s.d[1 - g];
                   if (s.dtop[g]) { s.dtop[g] = s.dtop[1 - g]; s.dr[g] = s.dr[1 - g]; }
                   else if (!s.dtop[1 - g]) s.dr[g] = inter(s.dr[g], s.dr[1 - g]);
                 }});
  ops.push_back({"intersection_with", [inter](SState &s, int g) {
                   s.p[g] &= s.p[1 - g];
                   s.r[g] = inter(s.r[g], s.r[1 - g]);
                   s.d[g] = s.d[g] && s.d[1 - g];
                   if (s.dtop[g]) { s.dtop[g] = s.dtop[1 - g]; s.dr[g] = s.dr[1 - g]; }
                   else if (!s.dtop[1 - g]) s.dr[g] = inter(s.dr[g], s.dr[1 - g]);
                 }});
  ops.push_back({"copy", [](SState &s, int g) {
                   s.p[g] = s.p[1 - g]; s.r[g] = s.r[1 - g];
                   s.d[g] = s.d[1 - g]; s.dtop[g] = s.dtop[1 - g]; s.dr[g] = s.dr[1 - g];
                 }});
  ops.push_back({"clear/top", [](SState &s, int g) {
                   s.p[g].clear(); s.r[g].clear();
                   s.d[g] = dd_t::top(); s.dtop[g] = true; s.dr[g].clear();
                 }});
  ops.push_back({"clear/bottom", [](SState &s, int g) {
                   s.p[g] = pset_t(); s.r[g].clear();
                   s.d[g] = dd_t::bottom(); s.dtop[g] = false; s.dr[g].clear();
                 }});
  return ops;
}
static bool set_check(const SState &s, const std::string &spec) {
  bool ok = true;
  for (int g = 0; g < 2; g++) {
    std::string ctx = "p" + std::to_string(g) + " expected " + show_set(s.r[g]);
    if (s.p[g].size() != s.r[g].size()) { vp::viol("patricia_tree_set.size:wrong", spec, ctx); ok = false; }
    if (s.p[g].empty() != s.r[g].empty()) { vp::viol("patricia_tree_set.empty:wrong", spec, ctx); ok = false; }
    for (ull k : KEYS)
      if (s.p[g][Key(k)] != (bool)s.r[g].count(k)) { vp::viol("patricia_tree_set.member:wrong", spec, ctx + " key " + std::to_string(k)); ok = false; }
    std::multiset<ull> it;
    for (auto i = s.p[g].begin(); i != s.p[g].end(); ++i) it.insert((*i).i);
    if (it.size() != s.r[g].size() || !std::equal(it.begin(), it.end(), s.r[g].begin())) { vp::viol("patricia_tree_set.iteration:wrong", spec, ctx); ok = false; }
    // discrete_domain (set with an extra top)
    std::string dctx = "d" + std::to_string(g) + " expected " + (s.dtop[g] ? std::string("top") : show_set(s.dr[g]));
    if (s.d[g].is_top() != s.dtop[g]) { vp::viol("discrete_domain.is_top:wrong", spec, dctx); ok = false; }
    if (s.d[g].is_bottom() != (!s.dtop[g] && s.dr[g].empty())) { vp::viol("discrete_domain.is_bottom:wrong", spec, dctx); ok = false; }
    if (!s.dtop[g]) {
      if (s.d[g].size() != s.dr[g].size()) { vp::viol("discrete_domain.size:wrong", spec, dctx); ok = false; }
      std::multiset<ull> dit;
      for (auto i = s.d[g].begin(); i != s.d[g].end(); ++i) dit.insert((*i).i);
      if (dit.size() != s.dr[g].size() || !std::equal(dit.begin(), dit.end(), s.dr[g].begin())) { vp::viol("discrete_domain.iteration:wrong", spec, dctx); ok = false; }
    }
  }
  for (int g = 0; g < 2; g++) {
    bool sub = std::includes(s.r[1 - g].begin(), s.r[1 - g].end(), s.r[g].begin(), s.r[g].end());
    if ((s.p[g] <= s.p[1 - g]) != sub) {
      vp::viol(std::string("patricia_tree_set.subset:") + (sub ? "wrong-no" : "wrong-yes"), spec, show_set(s.r[g]) + " <= " + show_set(s.r[1 - g]));
      ok = false;
    }
    bool dsub = s.dtop[1 - g] || (!s.dtop[g] && std::includes(s.dr[1 - g].begin(), s.dr[1 - g].end(), s.dr[g].begin(), s.dr[g].end()));
    if ((s.d[g] <= s.d[1 - g]) != dsub) {
      vp::viol(std::string("discrete_domain.leq:") + (dsub ? "wrong-no" : "wrong-yes"), spec, "d" + std::to_string(g));
      ok = false;
    }
  }
  if (!s.r[0].empty() && !s.r[1].empty()) g_nontriv++;
  if ((s.p[0] == s.p[1]) != (s.r[0] == s.r[1])) { vp::viol("patricia_tree_set.==:wrong", spec, show_set(s.r[0]) + " == " + show_set(s.r[1])); ok = false; }
  bool deq = (s.dtop[0] == s.dtop[1]) && (s.dtop[0] || s.dr[0] == s.dr[1]);
  if ((s.d[0] == s.d[1]) != deq) {
    vp::viol("discrete_domain.==:wrong", spec, (s.dtop[0] ? std::string("top") : show_set(s.dr[0])) + " == " + (s.dtop[1] ? std::string("top") : show_set(s.dr[1])));
    ok = false;
  }
  return ok;
}
static void set_dfs(const SState &s, const std::vector<SOp> &ops, int depth, int maxd,
                    std::vector<int> &path, const std::string &prefix) {
  if (depth == maxd) return;
  for (size_t oi = 0; oi < ops.size(); oi++)
    for (int g = 0; g < 2; g++) {
      SState t = s;
      path.push_back((int)(oi * 2 + g));
      std::string spec = prefix;
      for (int p : path) spec += ":" + std::to_string(p);
      vp::set_case(spec);
      bool ok = true;
      try {
        ops[oi].run(t, g);
        vp::stat("transitions");
        vp::stat("evaluations");
        g_states++;
        ok = set_check(t, spec);
      } catch (crab::verif::crab_error &e) {
        vp::viol("patricia_tree_set.op:abort", spec, ops[oi].name + " aborts: " + e.what());
        ok = false;
      }
      if (!ok) {
        std::string h;
        for (int p : path) h += "s" + std::to_string(p % 2) + "." + ops[p / 2].name + "; ";
        vp::viol("set:history", spec, h, 1);
      } else
        set_dfs(t, ops, depth + 1, maxd, path, prefix);
      path.pop_back();
    }
}

// ---- pair tables: every pair of environments with <= 3 bindings (every tree
// shape a binary merge can meet) x every binary operation, pointwise oracle
// ---- large environments: project / forget of key VECTORS in several orders --------------------
// separate_domain::project switches strategy with the size of the environment and the share of
// kept keys, and both project and forget take an unordered vector of keys: environments with up
// to 8 bindings x every subset of keys x three orders of the vector, against the std::map model.
static void env_vectors(size_t ks, uint64_t &caseno) {
  std::vector<ull> allk = KEYS;
  allk.insert(allk.end(), FRESH.begin(), FRESH.end());
  std::sort(allk.begin(), allk.end());
  allk.erase(std::unique(allk.begin(), allk.end()), allk.end());
  if (allk.size() > 8) allk.resize(8);
  size_t n = allk.size();
  for (unsigned bound = 0; bound < (1u << n); bound++) {
    if (!vp::mine(caseno++)) continue;
    if (__builtin_popcount(bound) < 4 && bound != 0) continue; // small environments are covered by the histories
    env_t base;
    RefEnv rbase;
    for (size_t i = 0; i < n; i++)
      if (bound & (1u << i)) {
        itv_t v = VALS[i % 4];
        base.set(Key(allk[i]), v);
        rbase.set(allk[i], v);
      }
    for (unsigned keepm = 0; keepm < (1u << n); keepm++)
      for (int order = 0; order < 3; order++) {
        std::vector<size_t> idx;
        for (size_t i = 0; i < n; i++)
          if (keepm & (1u << i)) idx.push_back(i);
        if (order == 1) std::reverse(idx.begin(), idx.end());
        if (order == 2 && idx.size() > 1) std::rotate(idx.begin(), idx.begin() + idx.size() / 2, idx.end());
        if (order > 0 && idx.size() < 2) continue;
        std::vector<Key> keys;
        for (size_t i : idx) keys.push_back(Key(allk[i]));
        for (int which = 0; which < 2; which++) { // 0: project, 1: forget
          std::string spec = "envvec:" + std::to_string(ks) + ":" + std::to_string(bound) + ":" + std::to_string(keepm) + ":" + std::to_string(order) + ":" + std::to_string(which);
          vp::set_case(spec);
          EState st;
          st.e[0] = base;
          st.r[0] = rbase;
          if (which == 0) {
            st.e[0].project(keys);
            for (auto it = st.r[0].m.begin(); it != st.r[0].m.end();)
              if (!(keepm & (1u << (std::find(allk.begin(), allk.end(), it->first) - allk.begin())))) it = st.r[0].m.erase(it); else ++it;
          } else {
            for (auto &k : keys) st.e[0] -= k; // separate_domain has no vector forget: one key at a time, in that order
            for (size_t i : idx) st.r[0].m.erase(allk[i]);
          }
          st.e[1] = st.e[0];
          st.r[1] = st.r[0];
          g_states++;
          env_check(st, spec, show_env(base) + (which == 0 ? " project " : " forget ") + "keys in order #" + std::to_string(order) + " mask " + std::to_string(keepm));
        }
      }
  }
}

static void env_pairs(size_t ks, uint64_t &caseno) {
  struct E { env_t e; RefEnv r; };
  std::vector<E> pool;
  size_t nk = KEYS.size(), nv = 4; // values 0..3 are neither top nor bottom
  for (unsigned mask = 0; mask < (1u << nk); mask++) {
    int bits = __builtin_popcount(mask);
    if (bits > 3) continue;
    std::vector<size_t> ks_;
    for (size_t i = 0; i < nk; i++) if (mask & (1u << i)) ks_.push_back(i);
    size_t combos = 1;
    for (int i = 0; i < bits; i++) combos *= nv;
    for (size_t c = 0; c < combos; c++) {
      E x;
      size_t cc = c;
      for (size_t i = 0; i < ks_.size(); i++) {
        x.e.set(Key(KEYS[ks_[i]]), VALS[cc % nv]);
        x.r.set(KEYS[ks_[i]], VALS[cc % nv]);
        cc /= nv;
      }
      pool.push_back(x);
    }
  }
  { E b; b.e.set_to_bottom(); b.r.bottom = true; pool.push_back(b); }
  vp::statmax("env_pair_pool", (long long)pool.size());
  crab::thresholds<z_number> ts(10);
  ts.add(bnd_t(z_number(1)));
  for (size_t i = 0; i < pool.size(); i++) {
    if (!vp::mine(caseno++)) continue;
    std::string spec = "envpair:" + std::to_string(ks) + ":" + std::to_string(i);
    vp::set_case(spec);
    for (size_t j = 0; j < pool.size(); j++) {
      const E &a = pool[i], &b = pool[j];
      struct { const char *name; env_t res; RefEnv ref; } rs[5];
      auto both_bot = [&](bool meetlike) {
        RefEnv r;
        if (meetlike) { if (a.r.bottom || b.r.bottom) { r.bottom = true; return std::make_pair(true, r); } }
        else { if (a.r.bottom) return std::make_pair(true, b.r); if (b.r.bottom) return std::make_pair(true, a.r); }
        return std::make_pair(false, r);
      };
      try {
        rs[0] = {"join", a.e | b.e, both_bot(false).first ? both_bot(false).second : pointwise(a.r, b.r, [](const itv_t &x, const itv_t &y) { return x | y; })};
        rs[1] = {"meet", a.e & b.e, both_bot(true).first ? both_bot(true).second : pointwise(a.r, b.r, [](const itv_t &x, const itv_t &y) { return x & y; })};
        rs[2] = {"widening", a.e || b.e, both_bot(false).first ? both_bot(false).second : pointwise(a.r, b.r, [](const itv_t &x, const itv_t &y) { return x || y; })};
        rs[3] = {"narrowing", a.e && b.e, both_bot(true).first ? both_bot(true).second : pointwise(a.r, b.r, [](const itv_t &x, const itv_t &y) { return x && y; })};
        rs[4] = {"widening_thresholds", a.e.widening_thresholds(b.e, ts), both_bot(false).first ? both_bot(false).second : pointwise(a.r, b.r, [&ts](const itv_t &x, const itv_t &y) { return x.widening_thresholds(y, ts); })};
        vp::stat("evaluations", 6);
        vp::stat("transitions", 5);
        for (auto &r : rs) {
          bool ok = r.res.is_bottom() == r.ref.bottom;
          if (ok && !r.ref.bottom) {
            for (ull k : KEYS) ok = ok && itv_eq(r.res.at(Key(k)), r.ref.at(k));
            size_t n = 0;
            for (auto it = r.res.begin(); it != r.res.end(); ++it) n++;
            ok = ok && n == r.ref.m.size();
          }
          if (!ok)
            vp::viol(std::string("separate_domain.") + r.name + ":not-pointwise", spec + ":" + std::to_string(j),
                     show_env(a.e) + " " + r.name + " " + show_env(b.e) + " = " + show_env(r.res) + " expected " + show_ref(r.ref));
        }
        bool le = a.e <= b.e;
        if (le != ref_leq(a.r, b.r))
          vp::viol(std::string("separate_domain.leq:") + (le ? "wrong-yes" : "wrong-no"), spec + ":" + std::to_string(j),
                   show_env(a.e) + " <= " + show_env(b.e));
        if (!a.r.bottom && !b.r.bottom && a.r.m.size() >= 2 && b.r.m.size() >= 1) g_nontriv++;
        g_states++;
      } catch (crab::verif::crab_error &e) {
        vp::viol("separate_domain.binary:abort", spec + ":" + std::to_string(j), show_env(a.e) + " , " + show_env(b.e) + " aborts: " + e.what());
      }
    }
  }
}

static void set_pairs(size_t ks, uint64_t &caseno) {
  size_t nk = KEYS.size();
  for (unsigned ma = 0; ma < (1u << nk); ma++) {
    if (!vp::mine(caseno++)) continue;
    pset_t a;
    std::set<ull> ra;
    for (size_t i = 0; i < nk; i++) if (ma & (1u << i)) { a += Key(KEYS[i]); ra.insert(KEYS[i]); }
    for (unsigned mb = 0; mb < (1u << nk); mb++) {
      pset_t b;
      std::set<ull> rb;
      for (size_t i = 0; i < nk; i++) if (mb & (1u << i)) { b += Key(KEYS[nk - 1 - i]); rb.insert(KEYS[nk - 1 - i]); }
      std::string spec = "setpair:" + std::to_string(ks) + ":" + std::to_string(ma) + ":" + std::to_string(mb);
      vp::set_case(spec);
      pset_t u = a | b, n = a & b;
      std::set<ull> ru = ra, rn;
      ru.insert(rb.begin(), rb.end());
      for (ull k : ra) if (rb.count(k)) rn.insert(k);
      vp::stat("evaluations", 4);
      vp::stat("transitions", 2);
      g_states++;
      if (!ra.empty() && !rb.empty()) g_nontriv++;
      auto same = [](const pset_t &p, const std::set<ull> &r) {
        std::multiset<ull> it;
        for (auto i = p.begin(); i != p.end(); ++i) it.insert((*i).i);
        return it.size() == r.size() && std::equal(it.begin(), it.end(), r.begin()) && p.size() == r.size();
      };
      if (!same(u, ru)) vp::viol("patricia_tree_set.union:wrong", spec, show_set(ra) + " | " + show_set(rb));
      if (!same(n, rn)) vp::viol("patricia_tree_set.intersection:wrong", spec, show_set(ra) + " & " + show_set(rb));
      bool sub = std::includes(rb.begin(), rb.end(), ra.begin(), ra.end());
      if ((a <= b) != sub) vp::viol(std::string("patricia_tree_set.subset:") + (sub ? "wrong-no" : "wrong-yes"), spec, show_set(ra) + " <= " + show_set(rb));
      if ((a == b) != (ra == rb)) vp::viol("patricia_tree_set.==:wrong", spec, show_set(ra) + " == " + show_set(rb));
    }
  }
}

int main(int argc, char **argv) {
  vp::parse_args(argc, argv);
  vp::install_crash_handler();
  crab::CrabEnableWarningMsg(false);
  bool th = vp::args().thorough();
  VALS = {itv_t(z_number(0)), itv_t(bnd_t(z_number(0)), bnd_t(z_number(1))),
          itv_t(bnd_t(z_number(1)), bnd_t(z_number(2))), itv_t(bnd_t::minus_infinity(), bnd_t(z_number(0))),
          itv_t::top(), itv_t::bottom()};
  VALN = {"[0,0]", "[0,1]", "[1,2]", "[-oo,0]", "top", "bottom"};
  // key alphabets (adversarial index bit patterns)
  std::vector<std::vector<ull>> keysets;
  keysets.push_back({0, 1, 2, 5, 1ULL << 31, ~0ULL});
  keysets.push_back({3, 4, 7, 8, 1ULL << 63, (1ULL << 63) + 1});
  if (th) keysets.push_back({0, 1ULL << 62, 1ULL << 63, (1ULL << 63) | (1ULL << 62), ~0ULL, ~0ULL - 1});
  int envdepth = 3, setdepth = th ? 5 : 4;
  std::string rp = vp::args().replay;
  for (size_t ks = 0; ks < keysets.size(); ks++) {
    KEYS = keysets[ks];
    FRESH = {6, (1ULL << 62) + 9};
    auto eops = env_ops();
    auto sops = set_ops();
    // replay: spec = env:<ks>:<p0>:<p1>... or set:<ks>:...
    if (!rp.empty()) {
      auto f = vp::split(rp, ':');
      if ((size_t)atoi(f[1].c_str()) != ks) continue;
      if (f[0] == "envpair" || f[0] == "setpair" || f[0] == "envvec") {
        uint64_t caseno = ks;
        if (f[0] == "envpair") env_pairs(ks, caseno); else if (f[0] == "envvec") env_vectors(ks, caseno); else set_pairs(ks, caseno);
        continue;
      }
      std::string h;
      if (f[0] == "env") {
        EState s;
        for (size_t i = 2; i < f.size(); i++) {
          int p = atoi(f[i].c_str());
          eops[p / 2].run(s, p % 2);
          h += "r" + std::to_string(p % 2) + "." + eops[p / 2].name + "; ";
        }
        env_check(s, rp, h);
      } else {
        SState s;
        for (size_t i = 2; i < f.size(); i++) {
          int p = atoi(f[i].c_str());
          sops[p / 2].run(s, p % 2);
          h += "s" + std::to_string(p % 2) + "." + sops[p / 2].name + "; ";
        }
        set_check(s, rp);
      }
      continue;
    }
    {
      uint64_t caseno = ks;
      env_pairs(ks, caseno);
      set_pairs(ks, caseno);
      env_vectors(ks, caseno);
    }
    // the first step is the unit of slicing
    {
      std::vector<int> path;
      for (size_t oi = 0; oi < eops.size(); oi++)
        for (int g = 0; g < 2; g++) {
          if (!vp::mine(oi * 2 + g + ks)) continue;
          if (vp::past_deadline()) { vp::incomplete("separate_domain keyset " + std::to_string(ks)); break; }
          EState s;
          path = {(int)(oi * 2 + g)};
          std::string prefix = "env:" + std::to_string(ks);
          if (!eops[oi].run(s, g)) continue;
          vp::stat("transitions");
          g_states++;
          env_check(s, prefix + ":" + std::to_string(path[0]), "");
          env_dfs(s, eops, 1, th && ks == 0 ? 4 : envdepth, path, prefix);
        }
    }
    {
      std::vector<int> path;
      for (size_t oi = 0; oi < sops.size(); oi++)
        for (int g = 0; g < 2; g++) {
          if (!vp::mine(oi * 2 + g + ks)) continue;
          SState s;
          path = {(int)(oi * 2 + g)};
          std::string prefix = "set:" + std::to_string(ks);
          sops[oi].run(s, g);
          vp::stat("transitions");
          g_states++;
          set_check(s, prefix + ":" + std::to_string(path[0]));
          set_dfs(s, sops, 1, setdepth, path, prefix);
        }
    }
  }
  vp::stat("states", g_states);
  vp::stat("traces_validated_against_impl", g_states);
  vp::stat("distinct_nontrivial", g_nontriv);
  vp::finish();
  return 0;
}
