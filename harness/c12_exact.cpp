// C12 — intervals, zones and octagons are exact on their own constraint
// language (brute-force integer reasoning in a box), and liftings never report
// looser variable bounds than their numerical base on straight-line code.
#include "common/histops.hpp"

#include <bitset>
#include <map>
#include <stdexcept>

using namespace vb;
using namespace vh;

namespace {

const int M = 10;                 // box [-M,M]^3
const int SIDE = 2 * M + 1;
const int NPTS = SIDE * SIDE * SIDE;
typedef std::bitset<NPTS> PSet;
int Q = 3;                        // query constants |k| <= Q

inline int pidx(int x, int y, int z) { return ((x + M) * SIDE + (y + M)) * SIDE + (z + M); }

struct LC { // language constraint: a*v1 + b*v2 <= k (b == 0: unary)
  int v1, a, v2, b, k;
  LinCst cst() const {
    LinCst c;
    c.kind = C_LEQ;
    c.e.terms.push_back({a, v1});
    if (b != 0) c.e.terms.push_back({b, v2});
    c.e.cst = -k;
    return c;
  }
  std::string str() const { return cst().str(); }
  int eval(int x, int y, int z) const {
    int val[3] = {x, y, z};
    return a * val[v1 - VX] + (b ? b * val[v2 - VX] : 0);
  }
};

enum Lang { L_INT, L_ZONE, L_OCT };

std::vector<LC> language(Lang L, int K) {
  std::vector<LC> r;
  int vars[3] = {VX, VY, VZ};
  for (int v : vars)
    for (int a : {1, -1})
      for (int k = -K; k <= K; k++) r.push_back({v, a, 0, 0, k});
  if (L == L_ZONE || L == L_OCT)
    for (int v : vars)
      for (int w : vars) {
        if (v == w) continue;
        for (int k = -K; k <= K; k++) r.push_back({v, 1, w, -1, k});
      }
  if (L == L_OCT)
    for (int i = 0; i < 3; i++)
      for (int j = i + 1; j < 3; j++)
        for (int s : {1, -1})
          for (int k = -K; k <= K; k++) r.push_back({vars[i], s, vars[j], s, k}); // x+y<=k, -x-y<=k
  return r;
}

PSet solutions(const LC &c) {
  PSet s;
  for (int x = -M; x <= M; x++)
    for (int y = -M; y <= M; y++)
      for (int z = -M; z <= M; z++)
        if (c.eval(x, y, z) <= c.k) s.set(pidx(x, y, z));
  return s;
}

struct Lng {
  Lang L;
  std::vector<LC> cs;       // constraints used to build conjunctions (|k| <= K)
  std::vector<PSet> sol;
  std::vector<LC> qs;       // query constraints (|k| <= Q)
  std::vector<PSet> viol;   // points violating the query
};

Lng make_lang(Lang L, int K) {
  Lng g;
  g.L = L;
  g.cs = language(L, K);
  for (auto &c : g.cs) g.sol.push_back(solutions(c));
  g.qs = language(L, Q);
  for (auto &c : g.qs) g.viol.push_back(~solutions(c));
  return g;
}

const DomEntry *DOM;
std::string DOMNAME, CFGNAME;
long long n_cases = 0, n_queries = 0, n_ops = 0, n_nonbottom = 0;
std::set<uint64_t> distinct;

std::string CONTEXT = "assume";
void report(const std::string &clause, const std::string &spec, const std::string &detail) {
  vp::viol(DOMNAME + "[" + CFGNAME + "]:" + CONTEXT + ":" + clause, spec, "[" + DOMNAME + " " + CFGNAME + "] " + detail);
}

std::unique_ptr<DomBox> assume_all(const std::vector<const LC *> &cs, int style) {
  std::unique_ptr<DomBox> d = DOM->make_top();
  if (style == 1 && cs.size() == 2) { // as one system
    Op o;
    o.kind = O_ASSUME2;
    o.c = cs[0]->cst();
    o.c2 = cs[1]->cst();
    d->apply(o, nullptr);
    n_ops++;
    return d;
  }
  for (size_t i = 0; i < cs.size(); i++) {
    Op o;
    o.kind = O_ASSUME;
    o.c = cs[i]->cst();
    if (style == 2 && i + 1 == cs.size()) {
      // interleave a copy: the last constraint is added to a copy of the value
      std::unique_ptr<DomBox> c = d->clone();
      c->apply(o, nullptr);
      n_ops++;
      return c;
    }
    d->apply(o, nullptr);
    n_ops++;
  }
  return d;
}

// compare every answer of value d with the exact solution set S
void check_exact(DomBox &d, const PSet &S, const Lng &g, const std::string &spec, const std::string &what, bool check_at) {
  bool empty = S.none();
  n_cases++;
  if (d.is_bottom() != empty) {
    report(empty ? "bottom:missed-unsatisfiable" : "bottom:spurious", spec, what + " => " + d.print() + (empty ? " but the conjunction has no integer solution" : " but a solution exists"));
    return;
  }
  if (empty) return;
  n_nonbottom++;
  for (size_t qi = 0; qi < g.qs.size(); qi++) {
    bool implied = (S & g.viol[qi]).none();
    bool ent = d.entails(g.qs[qi].cst());
    n_queries++;
    if (ent != implied) {
      report(ent ? "entails:unsound-yes" : "entails:incomplete-no", spec,
             what + " => " + d.print() + " entails(" + g.qs[qi].str() + ")=" + std::to_string(ent) + " but the conjunction " + (implied ? "implies" : "does not imply") + " it");
      return;
    }
  }
  if (check_at) {
    // optimum over the box and over the nested box one unit smaller: a bound that
    // differs between the two is an artefact of the box face, i.e. the direction is unbounded
    int lo[3] = {M + 1, M + 1, M + 1}, hi[3] = {-M - 1, -M - 1, -M - 1};
    int lo2[3] = {M + 1, M + 1, M + 1}, hi2[3] = {-M - 1, -M - 1, -M - 1};
    for (int x = -M; x <= M; x++)
      for (int y = -M; y <= M; y++)
        for (int z = -M; z <= M; z++)
          if (S.test(pidx(x, y, z))) {
            int v[3] = {x, y, z};
            bool inner = std::abs(x) < M && std::abs(y) < M && std::abs(z) < M;
            for (int i = 0; i < 3; i++) {
              lo[i] = std::min(lo[i], v[i]); hi[i] = std::max(hi[i], v[i]);
              if (inner) { lo2[i] = std::min(lo2[i], v[i]); hi2[i] = std::max(hi2[i], v[i]); }
            }
          }
    for (int i = 0; i < 3; i++) {
      Itv a = d.at(VX + i);
      bool lb_unb = lo[i] != lo2[i], ub_unb = hi[i] != hi2[i];
      bool lb_ok = lb_unb ? a.lb_inf : (!a.lb_inf && a.lb == lo[i]);
      bool ub_ok = ub_unb ? a.ub_inf : (!a.ub_inf && a.ub == hi[i]);
      if (!lb_ok || !ub_ok) {
        report("at:not-exact-projection", spec, what + " => " + d.print() + " at(" + var_name(VX + i) + ")=" + a.str() + " exact [" + (lb_unb ? "-oo" : std::to_string(lo[i])) + "," + (ub_unb ? "+oo" : std::to_string(hi[i])) + "]");
        return;
      }
    }
  }
}

std::string cstr(const std::vector<const LC *> &cs) {
  std::string s = "assume{";
  for (auto c : cs) s += c->str() + "; ";
  return s + "}";
}

void run_language(const Lng &g, int m, bool th) {
  size_t n = g.cs.size();
  // all ordered tuples of length 1..m
  std::vector<size_t> idx;
  uint64_t caseno = 0;
  // length 1 and 2 (all orders, three styles)
  for (size_t i = 0; i < n; i++) {
    if (!vp::mine(caseno++)) continue;
    if (vp::past_deadline()) { vp::incomplete(DOMNAME + " " + CFGNAME + " conjunctions"); return; }
    std::string spec = "c|" + DOMNAME + "|" + CFGNAME + "|" + std::to_string(i);
    vp::set_case(spec);
    try {
      {
        std::vector<const LC *> cs = {&g.cs[i]};
        CONTEXT = "assume1";
        std::unique_ptr<DomBox> d = assume_all(cs, 0);
        check_exact(*d, g.sol[i], g, spec, cstr(cs), true);
        // forget each variable: exact projection
        for (int v : {VX, VY, VZ}) {
          std::unique_ptr<DomBox> f = d->clone();
          Op o;
          o.kind = O_FORGET;
          o.v0 = v;
          f->apply(o, nullptr);
          PSet P; // exists v
          for (int x = -M; x <= M; x++)
            for (int y = -M; y <= M; y++)
              for (int z = -M; z <= M; z++)
                if (g.sol[i].test(pidx(x, y, z))) {
                  for (int t = -M; t <= M; t++) {
                    int p[3] = {x, y, z};
                    p[v - VX] = t;
                    P.set(pidx(p[0], p[1], p[2]));
                  }
                }
          CONTEXT = "forget";
          check_exact(*f, P, g, spec + "|f" + std::to_string(v), cstr(cs) + " forget(" + var_name(v) + ")", false);
        }
      }
      for (size_t j = 0; j < n; j++) {
        std::vector<const LC *> cs = {&g.cs[i], &g.cs[j]};
        PSet S = g.sol[i] & g.sol[j];
        for (int style = 0; style < 3; style++) {
          CONTEXT = "assume2";
          std::unique_ptr<DomBox> d = assume_all(cs, style);
          check_exact(*d, S, g, spec + "|" + std::to_string(j) + "|s" + std::to_string(style), cstr(cs) + " style " + std::to_string(style), style == 0);
          if (style == 0) distinct.insert(vp::fnv(d->print()));
        }
        if (vp::want_sample() && i == 7 && j > 20 && !S.none())
          vp::sample("[" + DOMNAME + " " + CFGNAME + "] " + cstr(cs) + " => " + assume_all(cs, 0)->print());
        if (m >= 3) {
          for (size_t k = 0; k < n; k++) {
            // triples: restrict the third constraint to |k| <= 1 in the quick tier
            if (!th && std::abs(g.cs[k].k) > 1) continue;
            std::vector<const LC *> c3 = {&g.cs[i], &g.cs[j], &g.cs[k]};
            CONTEXT = "assume3";
            std::unique_ptr<DomBox> d = assume_all(c3, 0);
            check_exact(*d, S & g.sol[k], g, spec + "|" + std::to_string(j) + "|" + std::to_string(k), cstr(c3), false);
          }
        }
      }
    } catch (std::runtime_error &e) {
      report("abort", spec, std::string("aborts: ") + e.what());
    }
  }
}

// join / meet of all pairs of conjunctions with <= 1 (x <= 2 in thorough) constraints
long REPLAY_A = -1, REPLAY_B = -1; // replay of one lattice pair
void run_lattice(const Lng &g, bool th) {
  struct Conj { std::vector<size_t> idx; PSet S; };
  std::vector<Conj> pool;
  {
    Conj top;
    top.S.set();
    pool.push_back(top);
  }
  for (size_t i = 0; i < g.cs.size(); i++) pool.push_back({{i}, g.sol[i]});
  for (size_t i = 0; i < g.cs.size(); i++)
    for (size_t j = i + 1; j < g.cs.size(); j++) {
      if (std::abs(g.cs[i].k) > 1 || std::abs(g.cs[j].k) > 1) continue;
      if (!th && (g.cs[i].k != 0 && g.cs[j].k != 0)) continue;
      PSet S = g.sol[i] & g.sol[j];
      if (S.none()) continue;
      pool.push_back({{i, j}, S});
    }
  vp::statmax("lattice_pool." + DOMNAME, (long long)pool.size());
  uint64_t caseno = 1000000;
  for (size_t a = 0; a < pool.size(); a++) {
    if (REPLAY_A >= 0 && (long)a != REPLAY_A) continue;
    if (!vp::mine(caseno++)) continue;
    if (vp::past_deadline()) { vp::incomplete(DOMNAME + " " + CFGNAME + " lattice pairs"); return; }
    for (size_t b = 0; b < pool.size(); b++) {
      if (REPLAY_B >= 0 && (long)b != REPLAY_B) continue;
      if (!th && pool[a].idx.size() + pool[b].idx.size() > 3) continue;
      std::string spec = "l|" + DOMNAME + "|" + CFGNAME + "|" + std::to_string(a) + "|" + std::to_string(b);
      vp::set_case(spec);
      try {
        std::vector<const LC *> ca, cb;
        for (size_t i : pool[a].idx) ca.push_back(&g.cs[i]);
        for (size_t i : pool[b].idx) cb.push_back(&g.cs[i]);
        std::unique_ptr<DomBox> A = assume_all(ca, 0), B = assume_all(cb, 0);
        // meet = conjunction
        {
          std::unique_ptr<DomBox> r = A->clone();
          Op o;
          o.kind = O_MEET;
          r->apply(o, B.get());
          n_ops++;
          CONTEXT = "meet";
          check_exact(*r, pool[a].S & pool[b].S, g, spec + "|meet", cstr(ca) + " meet " + cstr(cb), false);
        }
        // join = least upper bound in the language: entails c <=> both entail c
        {
          std::unique_ptr<DomBox> r = A->clone();
          Op o;
          o.kind = O_JOIN;
          r->apply(o, B.get());
          n_ops++;
          n_cases++;
          CONTEXT = "join";
          if (r->is_bottom()) {
            report("join:spurious-bottom", spec, cstr(ca) + " join " + cstr(cb));
            continue;
          }
          for (size_t qi = 0; qi < g.qs.size(); qi++) {
            bool both = (pool[a].S & g.viol[qi]).none() && (pool[b].S & g.viol[qi]).none();
            bool ent = r->entails(g.qs[qi].cst());
            n_queries++;
            if (ent != both) {
              report(ent ? "join:unsound" : "join:not-least-upper-bound", spec,
                     cstr(ca) + " join " + cstr(cb) + " = " + r->print() + " entails(" + g.qs[qi].str() + ")=" + std::to_string(ent) + " expected " + std::to_string(both));
              break;
            }
          }
        }
      } catch (std::runtime_error &e) {
        report("abort", spec, std::string("aborts: ") + e.what());
      }
    }
  }
}

// ---- lifting clause: lifted.at(v) within base.at(v) on straight-line numerical histories
bool itv_within(const Itv &a, const Itv &b) { // a subset of b
  if (a.bottom) return true;
  if (b.bottom) return false;
  if (!b.lb_inf && (a.lb_inf || a.lb < b.lb)) return false;
  if (!b.ub_inf && (a.ub_inf || a.ub > b.ub)) return false;
  return true;
}

void lifting_dfs(const std::vector<HOp> &A, DomBox &lifted, DomBox &base, int depth, int maxd, std::vector<int> &path, const std::string &basename) {
  if (depth == maxd) return;
  for (int oi = 0; oi < (int)A.size(); oi++) {
    const HOp &h = A[oi];
    if (h.engine || is_binary(h.op.kind) || h.boolean || h.fresh_w) continue;
    int k = h.op.kind;
    if (k == O_SET_TOP || k == O_SET_BOTTOM || k == O_MAKE_TOP || k == O_PROJECT || k == O_QUERY_ALL) continue;
    if (depth == 0 && !vp::mine(oi)) continue;
    if (vp::past_deadline()) return;
    std::unique_ptr<DomBox> l = lifted.clone(), b = base.clone();
    path.push_back(oi);
    std::string spec = "lift|" + DOMNAME + "|" + CFGNAME + "|";
    for (size_t i = 0; i < path.size(); i++) spec += (i ? "." : "") + std::to_string(path[i]);
    vp::set_case(spec);
    try {
      l->apply(h.op, nullptr);
      b->apply(h.op, nullptr);
      n_ops += 2;
      n_cases++;
      bool ok = true;
      if (!b->is_bottom()) {
        for (int v : {VX, VY, VZ}) {
          Itv la = l->at(v), ba = b->at(v);
          if (!itv_within(la, ba)) {
            std::string hs;
            for (int p : path) hs += A[p].op.name + "; ";
            CONTEXT = "straight-line"; report("lifting:looser-bound-than-base", spec, hs + " => lifted " + l->print() + " at(" + var_name(v) + ")=" + la.str() + " base(" + basename + ") " + b->print() + " at=" + ba.str());
            ok = false;
            break;
          }
        }
      }
      if (ok) lifting_dfs(A, *l, *b, depth + 1, maxd, path, basename);
    } catch (std::runtime_error &e) {
      // unsupported combinations are C03's business
    }
    path.pop_back();
  }
}

} // namespace

// ---- meet of difference constraints over FOUR variables ---------------------------------------
// The closure after a meet walks alternating paths between the edges of the two operands; the
// shortest such shapes need four variables, one more than the language enumeration above uses.
// Oracle: Floyd-Warshall on the union of the constraints (exact for integer difference constraints).
struct DC { int i, j; long c; }; // v_i - v_j <= c
const int M4V[4] = {VX, VY, VZ, VW};
std::vector<DC> m4_constraints() {
  std::vector<DC> r;
  for (int i = 0; i < 4; i++)
    for (int j = 0; j < 4; j++)
      if (i != j)
        for (long c : {1L, 5L}) r.push_back({i, j, c});
  return r;
}
std::unique_ptr<DomBox> m4_build(const std::vector<DC> &all, const std::vector<int> &idx) {
  std::unique_ptr<DomBox> d = DOM->make_top();
  for (int k : idx) {
    Op o;
    o.kind = O_ASSUME;
    o.c = cst({{1, M4V[all[k].i]}, {-1, M4V[all[k].j]}}, -all[k].c, C_LEQ);
    d->apply(o, nullptr);
    n_ops++;
  }
  return d;
}
std::string m4_str(const std::vector<DC> &all, const std::vector<int> &idx) {
  std::string s = "{";
  for (int k : idx) s += std::string(var_name(M4V[all[k].i])) + "-" + var_name(M4V[all[k].j]) + "<=" + std::to_string(all[k].c) + " ";
  return s + "}";
}
void m4_check(const std::vector<DC> &all, const std::vector<int> &a, const std::vector<int> &b, const std::string &spec) {
  vp::set_case(spec);
  n_cases++;
  const long INF = 1000000;
  long d[4][4];
  for (int i = 0; i < 4; i++)
    for (int j = 0; j < 4; j++) d[i][j] = i == j ? 0 : INF;
  for (auto *v : {&a, &b})
    for (int k : *v) d[all[k].i][all[k].j] = std::min(d[all[k].i][all[k].j], all[k].c);
  for (int k = 0; k < 4; k++)
    for (int i = 0; i < 4; i++)
      for (int j = 0; j < 4; j++)
        if (d[i][k] < INF && d[k][j] < INF) d[i][j] = std::min(d[i][j], d[i][k] + d[k][j]);
  bool unsat = false;
  for (int i = 0; i < 4; i++)
    if (d[i][i] < 0) unsat = true;
  try {
    std::unique_ptr<DomBox> A = m4_build(all, a), B = m4_build(all, b);
    Op o;
    o.kind = O_MEET;
    A->apply(o, B.get());
    n_ops++;
    std::string what = m4_str(all, a) + " meet " + m4_str(all, b) + " = " + A->print();
    if (A->is_bottom() != unsat) {
      report(unsat ? "bottom:unsat-not-detected" : "bottom:satisfiable-but-bottom", spec, what);
      return;
    }
    if (unsat) return;
    n_nonbottom++;
    for (int i = 0; i < 4; i++)
      for (int j = 0; j < 4; j++) {
        if (i == j) continue;
        n_queries++;
        if (d[i][j] < INF) {
          LinCst implied = cst({{1, M4V[i]}, {-1, M4V[j]}}, -d[i][j], C_LEQ);
          if (!A->entails(implied)) { report("entails:incomplete-no", spec, what + " does not entail the implied " + implied.str()); return; }
          LinCst stronger = cst({{1, M4V[i]}, {-1, M4V[j]}}, -(d[i][j] - 1), C_LEQ);
          if (A->entails(stronger)) { report("entails:unsound-yes", spec, what + " entails " + stronger.str() + " which is not implied"); return; }
        } else {
          LinCst any = cst({{1, M4V[i]}, {-1, M4V[j]}}, -50, C_LEQ);
          if (A->entails(any)) { report("entails:unsound-yes", spec, what + " entails " + any.str() + " although the difference is unbounded"); return; }
        }
      }
  } catch (std::runtime_error &e) {
    report("abort", spec, e.what());
  }
}
void run_meet4(bool th, const std::string &only_spec) {
  CONTEXT = "meet4";
  std::vector<DC> all = m4_constraints();
  int n = (int)all.size();
  if (!only_spec.empty()) { // replay: m4|dom|cfg|a.a|b.b.b
    auto f = vp::split(only_spec, '|');
    std::vector<int> a, b;
    for (auto &t : vp::split(f[3], '.')) a.push_back(atoi(t.c_str()));
    for (auto &t : vp::split(f[4], '.')) b.push_back(atoi(t.c_str()));
    m4_check(all, a, b, only_spec);
    return;
  }
  uint64_t unit = 0;
  auto spec = [&](const std::vector<int> &a, const std::vector<int> &b) {
    std::string s = "m4|" + DOMNAME + "|" + CFGNAME + "|";
    for (size_t i = 0; i < a.size(); i++) s += (i ? "." : "") + std::to_string(a[i]);
    s += "|";
    for (size_t i = 0; i < b.size(); i++) s += (i ? "." : "") + std::to_string(b[i]);
    return s;
  };
  // (1 constraint) meet (3 constraints), both orders
  for (int a = 0; a < n; a++) {
    if (vp::past_deadline()) { vp::incomplete(DOMNAME + " " + CFGNAME + " meet4"); return; }
    for (int b1 = 0; b1 < n; b1++)
      for (int b2 = b1 + 1; b2 < n; b2++)
        for (int b3 = b2 + 1; b3 < n; b3++) {
          if (!vp::mine(unit++)) continue;
          m4_check(all, {a}, {b1, b2, b3}, spec({a}, {b1, b2, b3}));
          m4_check(all, {b1, b2, b3}, {a}, spec({b1, b2, b3}, {a}));
        }
  }
  // (2 constraints) meet (2 constraints)
  if (th)
    for (int a1 = 0; a1 < n; a1++)
      for (int a2 = a1 + 1; a2 < n; a2++) {
        if (vp::past_deadline()) { vp::incomplete(DOMNAME + " " + CFGNAME + " meet4 pairs"); return; }
        for (int b1 = 0; b1 < n; b1++)
          for (int b2 = b1 + 1; b2 < n; b2++) {
            if (!vp::mine(unit++)) continue;
            m4_check(all, {a1, a2}, {b1, b2}, spec({a1, a2}, {b1, b2}));
          }
      }
}

// ---- incremental closure over FIVE variables -------------------------------------------------------
// Constraints v_i - v_j <= 1 over five variables are added one at a time: every set of four (in index
// order and reversed) followed by every fifth constraint, i.e. also edges that link two already built
// parts of the graph. The closed form is then observed through at(): with v_j == 0 added to a copy, the
// bounds of every other variable must be exactly the shortest-path distances (Floyd-Warshall).
const int M5V[5] = {VX, VY, VZ, VW, VV};
void m5_check(const std::vector<std::pair<int, int>> &seq, const std::string &spec) {
  vp::set_case(spec);
  n_cases++;
  const long INF = 1000000;
  long d[5][5];
  for (int i = 0; i < 5; i++)
    for (int j = 0; j < 5; j++) d[i][j] = i == j ? 0 : INF;
  for (auto &c : seq) d[c.first][c.second] = std::min(d[c.first][c.second], 1L);
  for (int k = 0; k < 5; k++)
    for (int i = 0; i < 5; i++)
      for (int j = 0; j < 5; j++)
        if (d[i][k] < INF && d[k][j] < INF) d[i][j] = std::min(d[i][j], d[i][k] + d[k][j]);
  try {
    std::unique_ptr<DomBox> A = DOM->make_top();
    std::string what;
    for (auto &c : seq) {
      Op o;
      o.kind = O_ASSUME;
      o.c = cst({{1, M5V[c.first]}, {-1, M5V[c.second]}}, -1, C_LEQ);
      A->apply(o, nullptr);
      n_ops++;
      what += std::string(var_name(M5V[c.first])) + "-" + var_name(M5V[c.second]) + "<=1; ";
    }
    if (A->is_bottom()) { report("bottom:satisfiable-but-bottom", spec, what); return; }
    n_nonbottom++;
    for (int j = 0; j < 5; j++) {
      std::unique_ptr<DomBox> B = A->clone();
      Op o;
      o.kind = O_ASSUME;
      o.c = cst({{1, M5V[j]}}, 0, C_EQ);
      B->apply(o, nullptr);
      n_ops++;
      for (int i = 0; i < 5; i++) {
        if (i == j) continue;
        Itv it = B->at(M5V[i]);
        n_queries++;
        bool ub_ok = d[i][j] < INF ? (!it.ub_inf && it.ub == d[i][j]) : it.ub_inf;
        bool lb_ok = d[j][i] < INF ? (!it.lb_inf && it.lb == -d[j][i]) : it.lb_inf;
        if (it.bottom || !ub_ok || !lb_ok) {
          report("at:not-exact-after-incremental-closure", spec,
                 what + "=> " + A->print() + " ; with " + var_name(M5V[j]) + "==0, at(" + var_name(M5V[i]) + ")=" + it.str() + " expected [" +
                     (d[j][i] < INF ? std::to_string(-d[j][i]) : "-oo") + "," + (d[i][j] < INF ? std::to_string(d[i][j]) : "+oo") + "]");
          return;
        }
      }
    }
  } catch (std::runtime_error &e) {
    report("abort", spec, e.what());
  }
}
void run_inc5(bool th, const std::string &only_spec) {
  CONTEXT = "inc5";
  std::vector<std::pair<int, int>> all;
  for (int i = 0; i < 5; i++)
    for (int j = 0; j < 5; j++)
      if (i != j) all.push_back({i, j});
  int n = (int)all.size(); // 20
  auto mkspec = [&](const std::vector<int> &idx) {
    std::string s = "m5|" + DOMNAME + "|" + CFGNAME + "|";
    for (size_t i = 0; i < idx.size(); i++) s += (i ? "." : "") + std::to_string(idx[i]);
    return s;
  };
  if (!only_spec.empty()) {
    auto f = vp::split(only_spec, '|');
    std::vector<std::pair<int, int>> seq;
    for (auto &t : vp::split(f[3], '.')) seq.push_back(all[atoi(t.c_str())]);
    m5_check(seq, only_spec);
    return;
  }
  uint64_t unit = 0;
  for (int a = 0; a < n; a++)
    for (int b = a + 1; b < n; b++) {
      if (vp::past_deadline()) { vp::incomplete(DOMNAME + " " + CFGNAME + " inc5"); return; }
      for (int c = b + 1; c < n; c++)
        for (int e = c + 1; e < n; e++) {
          if (!vp::mine(unit++)) continue;
          for (int last = 0; last < n; last++) {
            if (last == a || last == b || last == c || last == e) continue;
            for (int rev = 0; rev < 2; rev++) {
              std::vector<int> idx = rev ? std::vector<int>{e, c, b, a, last} : std::vector<int>{a, b, c, e, last};
              std::vector<std::pair<int, int>> seq;
              for (int k : idx) seq.push_back(all[k]);
              // negative cycles cannot arise with positive weights; zero-weight issues neither
              m5_check(seq, mkspec(idx));
            }
          }
        }
    }
}

int main(int argc, char **argv) {
  vp::parse_args(argc, argv);
  vp::install_crash_handler();
  quiet_crab();
  bool th = vp::args().thorough();
  std::string mode = vp::args().opt.count("mode") ? vp::args().opt["mode"] : "exact";
  std::string only = vp::args().opt.count("domains") ? vp::args().opt["domains"] : "";
  std::string rp = vp::args().replay;
  std::vector<std::string> rf;
  if (!rp.empty()) {
    rf = vp::split(rp, '|');
    only = rf[1];
    mode = rf[0] == "lift" ? "lifting" : (rf[0] == "m4" ? "meet4" : (rf[0] == "m5" ? "inc5" : "exact"));
    if (rf[0] == "l" && rf.size() >= 5) { REPLAY_A = atol(rf[3].c_str()); REPLAY_B = atol(rf[4].c_str()); }
    vp::args().nslices = 1;
    vp::args().slice = 0;
  }
  for (auto &e : registry()) {
    if (!only.empty() && ("," + only + ",").find("," + e.name + ",") == std::string::npos) continue;
    DOM = &e;
    DOMNAME = e.name;
    const std::vector<Config> &cfgs = th ? e.configs_thorough : e.configs_quick;
    if (mode == "inc5") {
      if (!(e.caps & (CAP_EXACT_ZONE | CAP_EXACT_OCT))) continue;
      for (auto &cfg : cfgs) {
        if (!rp.empty() && cfg.name != rf[2]) continue;
        apply_config(cfg);
        CFGNAME = cfg.name;
        run_inc5(th, rp);
      }
    } else if (mode == "meet4") {
      if (!(e.caps & (CAP_EXACT_ZONE | CAP_EXACT_OCT))) continue;
      for (auto &cfg : cfgs) {
        if (!rp.empty() && cfg.name != rf[2]) continue;
        apply_config(cfg);
        CFGNAME = cfg.name;
        run_meet4(th, rp);
      }
    } else if (mode == "exact") {
      if (!(e.caps & (CAP_EXACT_INT | CAP_EXACT_ZONE | CAP_EXACT_OCT))) continue;
      Lang L = (e.caps & CAP_EXACT_OCT) ? L_OCT : (e.caps & CAP_EXACT_ZONE) ? L_ZONE : L_INT;
      Lng g = make_lang(L, 2);
      for (auto &cfg : cfgs) {
        if (!rp.empty() && cfg.name != rf[2]) continue;
        apply_config(cfg);
        CFGNAME = cfg.name;
        bool first_cfg = (&cfg == &cfgs[0]);
        // triples only for the first (default) configuration in quick
        if (rp.empty() || rf[0] == "c") run_language(g, (th || first_cfg) ? 3 : 2, th);
        if (rp.empty() || rf[0] == "l") run_lattice(g, th);
      }
    } else {
      if (e.base.empty()) continue;
      const DomEntry *base = find_domain(e.base);
      if (!base) continue;
      // the lifting clause is stated for the boolean, array and region liftings and the reduced products
      bool lifting = e.name.rfind("bool_", 0) == 0 || e.name.rfind("as_", 0) == 0 || e.name.rfind("aa_", 0) == 0 ||
                     e.name.rfind("rgn_", 0) == 0 || e.name == "num_product";
      if (!lifting) continue;
      std::vector<HOp> A = build_alphabet(CAP_NUM, true);
      for (auto &cfg : cfgs) {
        if (!rp.empty() && cfg.name != rf[2]) continue;
        apply_config(cfg);
        CFGNAME = cfg.name;
        std::unique_ptr<DomBox> l = e.make_top(), b = base->make_top();
        std::vector<int> path;
        lifting_dfs(A, *l, *b, 0, th ? 3 : 2, path, e.base);
      }
    }
  }
  vp::stat("states", n_cases);
  vp::stat("transitions", n_ops);
  vp::stat("traces_validated_against_impl", n_cases);
  vp::stat("evaluations", n_cases + n_queries);
  vp::stat("entailment_queries", n_queries);
  vp::stat("satisfiable_cases", n_nonbottom);
  vp::stat("distinct_nontrivial", n_nonbottom);
  vp::stat("distinct_printed_values", (long long)distinct.size());
  vp::finish();
  return 0;
}
