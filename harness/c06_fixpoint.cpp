// C06 — the fixpoint engine computes the least solution when nothing is
// extrapolated. A finite powerset value type (widening = join, narrowing =
// meet, exact block relations) is run through the REAL
// interleaved_fwd_fixpoint_iterator on every small CFG and compared with a
// naive Kleene iteration at every block.
#include "common/crabdefs.hpp"
#include "common/proto.hpp"

#include <crab/cfg/cfg_bgl.hpp>
#include <crab/fixpoint/fixpoint_params.hpp>
#include <crab/fixpoint/interleaved_fixpoint_iterator.hpp>

using namespace crab::cfg_impl;

// concrete space: (x,y) in {0..3}^2 -> 16 states, bit = x*4+y
struct PS {
  uint16_t bits;
  PS() : bits(0xffff) {}
  explicit PS(uint16_t b) : bits(b) {}
  PS make_top() const { return PS(0xffff); }
  PS make_bottom() const { return PS(0); }
  void set_to_top() { bits = 0xffff; }
  void set_to_bottom() { bits = 0; }
  bool is_bottom() const { return bits == 0; }
  bool is_top() const { return bits == 0xffff; }
  bool operator<=(const PS &o) const { return (bits & ~o.bits) == 0; }
  PS operator|(const PS &o) const { return PS(bits | o.bits); }
  void operator|=(const PS &o) { bits |= o.bits; }
  PS operator&(const PS &o) const { return PS(bits & o.bits); }
  void operator&=(const PS &o) { bits &= o.bits; }
  PS operator||(const PS &o) const { return PS(bits | o.bits); }
  PS operator&&(const PS &o) const { return PS(bits & o.bits); }
  template <typename T> PS widening_thresholds(const PS &o, const T &) const { return PS(bits | o.bits); }
  void write(crab::crab_os &o) const { o << "ps(" << (int)bits << ")"; }
};
inline crab::crab_os &operator<<(crab::crab_os &o, const PS &p) {
  p.write(o);
  return o;
}

// block relations (exact images of sets of states)
static uint16_t rel_image(int rel, uint16_t in) {
  uint16_t out = 0;
  for (int s = 0; s < 16; s++) {
    if (!(in & (1 << s))) continue;
    int x = s / 4, y = s % 4;
    switch (rel) {
    case 0: out |= 1 << s; break;                              // identity
    case 1: out |= 1 << (((x + 1) % 4) * 4 + y); break;        // x := x+1 mod 4
    case 2: if (x <= 1) out |= 1 << s; break;                  // assume x<=1
    case 3: if (x >= 2) out |= 1 << s; break;                  // assume x>=2
    case 4: for (int v = 0; v < 4; v++) out |= 1 << (v * 4 + y); break; // havoc x
    case 5: out |= 1 << (0 * 4 + y); break;                    // x := 0
    case 6: out |= 1 << (y * 4 + x); break;                    // swap
    }
  }
  return out;
}
static const char *rel_name[] = {"id", "x++", "x<=1", "x>=2", "havoc x", "x:=0", "swap"};

typedef ikos::interleaved_fwd_fixpoint_iterator<z_cfg_ref_t, PS> base_iter_t;
class Iter : public base_iter_t {
public:
  std::vector<int> rels; // per block
  Iter(z_cfg_ref_t cfg, const crab::fixpoint_parameters &p, std::vector<int> r)
      : base_iter_t(cfg, PS(), p, false), rels(r) {}
  PS analyze(const std::string &l, PS &&pre) override { return PS(rel_image(rels[atoi(l.c_str() + 1)], pre.bits)); }
  void process_pre(const std::string &, PS) override {}
  void process_post(const std::string &, PS) override {}
};

static std::string lbl(int i) { return "b" + std::to_string(i); }

struct Case {
  int n;
  uint64_t edges;
  std::vector<int> rels;
  uint16_t init;
  int start;
  int assume_mask; // which blocks carry an assumption
  uint16_t assume_set;
  unsigned delay, desc;
};

static std::string show(const Case &c) {
  std::string s = "n=" + std::to_string(c.n) + " edges:";
  for (int u = 0; u < c.n; u++)
    for (int v = 0; v < c.n; v++)
      if ((c.edges >> (u * c.n + v)) & 1) s += " " + std::to_string(u) + "->" + std::to_string(v);
  s += " rels:";
  for (int i = 0; i < c.n; i++) s += std::string(" b") + std::to_string(i) + "=" + rel_name[c.rels[i]];
  s += " init=" + std::to_string(c.init) + " start=b" + std::to_string(c.start) + " assume_mask=" + std::to_string(c.assume_mask) +
       " assume_set=" + std::to_string(c.assume_set) + " delay=" + std::to_string(c.delay) + " desc=" + std::to_string(c.desc);
  return s;
}

// naive least fixpoint: pre(b) = init_b | U post(pred); post = rel(pre & assumption)
static void kleene(const Case &c, std::vector<uint16_t> &pre, std::vector<uint16_t> &post) {
  pre.assign(c.n, 0);
  post.assign(c.n, 0);
  // blocks reachable from start (the engine ignores the others)
  bool changed = true;
  while (changed) {
    changed = false;
    for (int b = 0; b < c.n; b++) {
      uint16_t p = (b == c.start) ? c.init : 0;
      for (int u = 0; u < c.n; u++)
        if ((c.edges >> (u * c.n + b)) & 1) p |= post[u];
      if ((c.assume_mask >> b) & 1) p &= c.assume_set;
      uint16_t q = rel_image(c.rels[b], p);
      if (p != pre[b] || q != post[b]) {
        pre[b] = p;
        post[b] = q;
        changed = true;
      }
    }
  }
}

static long long n_runs = 0, n_blocks = 0, n_loops = 0;
static std::set<uint64_t> nontriv;

// blocks inside some WTO cycle (as head or member)
struct InCycle : public ikos::wto_component_visitor<z_cfg_ref_t> {
  std::set<std::string> in;
  int depth = 0;
  void visit(ikos::wto_vertex<z_cfg_ref_t> &v) override {
    if (depth > 0) in.insert(v.node());
  }
  void visit(ikos::wto_cycle<z_cfg_ref_t> &c) override {
    in.insert(c.head());
    depth++;
    for (auto it = c.begin(); it != c.end(); ++it) it->accept(this);
    depth--;
  }
};

static void run_graph(int n, uint64_t edges, const std::vector<int> &rels, const std::string &spec, bool th) {
  z_cfg_t cfg(lbl(0));
  for (int i = 0; i < n; i++) cfg.insert(lbl(i));
  for (int u = 0; u < n; u++)
    for (int v = 0; v < n; v++)
      if ((edges >> (u * n + v)) & 1) cfg.get_node(lbl(u)) >> cfg.get_node(lbl(v));
  z_cfg_ref_t ref(cfg);
  // admissible start blocks: the cfg entry, and blocks not inside any WTO component
  std::vector<int> starts = {0};
  {
    ikos::wto<z_cfg_ref_t> w(ref);
    InCycle ic;
    w.accept(&ic);
    if (!ic.in.empty()) n_loops++;
    for (int b = 1; b < n; b++)
      if (!ic.in.count(lbl(b))) {
        // only blocks reachable from the entry appear in the WTO
        if (w.nesting(lbl(b))) starts.push_back(b);
      }
  }
  static const uint16_t inits[] = {0xffff, 0x0001, 0x8421, 0x00f0, 0x0000};
  static const uint16_t asets[] = {0x0f0f, 0xff00, 0x1248};
  // One iterator object per (delay, desc) is REUSED for every (init, start, assumption)
  // run of this program: a run must not depend on what an earlier run left behind.
  for (unsigned delay : {0u, 1u, 3u})
    for (unsigned desc : {0u, 1u, 2u}) {
      crab::fixpoint_parameters p;
      p.get_widening_delay() = delay;
      p.get_descending_iterations() = desc;
      p.get_max_thresholds() = 0;
      Iter it(ref, p, rels);
      for (uint16_t init : inits)
        for (int start : starts)
          for (int am = 0; am < (th ? 4 : 3); am++) {
            // assumption placements: none, last block, blocks {0,last}, block 0
            int mask = am == 0 ? 0 : am == 1 ? (1 << (n - 1)) : am == 2 ? 1 | (1 << (n - 1)) : 1;
            for (uint16_t aset : asets) {
              if (am == 0 && aset != asets[0]) continue;
              Case c{n, edges, rels, init, start, mask, aset, delay, desc};
              std::string cs = spec + ":" + std::to_string(init) + ":" + std::to_string(start) + ":" + std::to_string(mask) + ":" +
                               std::to_string(aset) + ":" + std::to_string(delay) + ":" + std::to_string(desc);
              vp::set_case(cs);
              try {
                if (start == 0 && mask == 0)
                  it.run(PS(init));
                else {
                  Iter::assumption_map_t amap;
                  for (int b = 0; b < n; b++)
                    if ((mask >> b) & 1) amap.insert({lbl(b), PS(aset)});
                  it.run(lbl(start), PS(init), amap);
                }
              } catch (crab::verif::crab_error &e) {
                vp::viol("fixpoint:abort", cs, show(c) + " aborts: " + e.what());
                continue;
              }
              n_runs++;
              std::vector<uint16_t> kpre, kpost;
              kleene(c, kpre, kpost);
              bool any_loop_value = false;
              for (int b = 0; b < n; b++) {
                n_blocks++;
                uint16_t gp = it.get_pre(lbl(b)).bits, gq = it.get_post(lbl(b)).bits;
                if (gp != kpre[b] || gq != kpost[b]) {
                  const char *kind = ((gp & ~kpre[b]) || (gq & ~kpost[b])) ? ((kpre[b] & ~gp) || (kpost[b] & ~gq) ? "incomparable" : "not-least") : "unsound";
                  vp::viol(std::string("fixpoint:") + kind + (start == 0 ? (mask ? ":assumptions" : ":entry") : ":alt-start"), cs,
                           show(c) + " (iterator object reused across runs) block b" + std::to_string(b) + " pre=" + std::to_string(gp) + " post=" + std::to_string(gq) +
                               " least pre=" + std::to_string(kpre[b]) + " post=" + std::to_string(kpost[b]));
                  break;
                }
                if (kpre[b] != 0 && kpre[b] != 0xffff) any_loop_value = true;
              }
              if (any_loop_value) nontriv.insert(vp::fnv(cs));
              if (vp::want_sample() && n == 3 && any_loop_value && edges == 0x0a7)
                vp::sample(show(c) + " => pre(b1)=" + std::to_string(it.get_pre(lbl(1)).bits));
            }
          }
    }
}

int main(int argc, char **argv) {
  vp::parse_args(argc, argv);
  vp::install_crash_handler();
  crab::CrabEnableWarningMsg(false);
  bool th = vp::args().thorough();
  if (!vp::args().replay.empty()) {
    // spec: n:edges:r0.r1...:init:start:mask:aset:delay:desc  (re-runs the whole graph/relations family)
    auto f = vp::split(vp::args().replay, ':');
    int n = atoi(f[0].c_str());
    uint64_t edges = strtoull(f[1].c_str(), 0, 10);
    std::vector<int> rels;
    for (auto &t : vp::split(f[2], '.')) rels.push_back(atoi(t.c_str()));
    run_graph(n, edges, rels, f[0] + ":" + f[1] + ":" + f[2], true);
    vp::finish();
    return 0;
  }
  uint64_t caseno = 0;
  for (int n = 1; n <= (th ? 4 : 3); n++) {
    int nrel = n <= 3 ? 7 : 4;
    uint64_t nrelcombos = 1;
    for (int i = 0; i < n; i++) nrelcombos *= nrel;
    bool cut = false;
    for (uint64_t edges = 0; edges < (1ULL << (n * n)) && !cut; edges++) {
      for (uint64_t rc = 0; rc < nrelcombos; rc++) {
        if (!vp::mine(caseno++)) continue;
        // quick tier at n=3: relation menu restricted to 4 per block for graphs without cycles is not
        // done: everything is enumerated
        std::vector<int> rels;
        uint64_t t = rc;
        std::string rs;
        for (int i = 0; i < n; i++) {
          rels.push_back((int)(t % nrel));
          rs += (i ? "." : "") + std::to_string(t % nrel);
          t /= nrel;
        }
        run_graph(n, edges, rels, std::to_string(n) + ":" + std::to_string(edges) + ":" + rs, th);
      }
      if ((edges & 0x3f) == 0 && vp::past_deadline()) {
        vp::incomplete("n=" + std::to_string(n) + " cut at edge set " + std::to_string(edges));
        cut = true;
      }
    }
  }
  vp::stat("states", n_blocks);
  vp::stat("transitions", n_runs);
  vp::stat("traces_validated_against_impl", n_runs);
  vp::stat("evaluations", n_runs);
  vp::stat("graphs_with_cycles_x_relations", n_loops);
  vp::stat("distinct_nontrivial", (long long)nontriv.size());
  vp::finish();
  return 0;
}
