// C15 — region/reference domain: bounded-exhaustive exploration of operation
// histories over two int regions (R1, R2 = copy of R1), one region of
// references (RR), three references (p, q into R1/R2; r into RR) and scalars,
// executed on the REAL region domain and on a set of concrete heaps.
//
// Concrete heap: objects 1..4 (each created by one ref_make, with its
// allocation site), a reference is null or (object, offset in {0,4}); a
// region maps addresses (object, offset) to values; cells never stored to are
// undefined and reading them leaves the model (the witness is dropped), as do
// accesses through null or freed references.
#include "common/dombox_impl.hpp"
#include "common/histops.hpp"
#include "common/proto.hpp"

#include <array>
#include <tuple>
#include <unordered_map>

using namespace vb;
using vh::cst;
using vh::lin;
using vh::Val;

namespace {

const long UNDEF = -777;
const int MAXOBJ = 4;
const int NCELL = (MAXOBJ + 1) * 2;

struct RW { // concrete witness
  std::array<long, 4> sc;              // x, y, b1, b2
  std::array<long, 3> ref;             // p, q, r encoded: 0 = null, else obj*8+off
  std::array<long, NCELL> r1, r2, rr, rb; // region contents (rr: encoded references, rb: booleans)
  std::array<long, MAXOBJ + 1> site;   // allocation site of each object (0: not allocated)
  std::array<long, MAXOBJ + 1> home;   // region variable the object was allocated in
  std::array<long, MAXOBJ + 1> freed;
  long nobj = 0;
  std::tuple<const std::array<long, 4> &, const std::array<long, 3> &, const std::array<long, NCELL> &, const std::array<long, NCELL> &,
             const std::array<long, NCELL> &, const std::array<long, NCELL> &, const std::array<long, MAXOBJ + 1> &, const std::array<long, MAXOBJ + 1> &,
             const std::array<long, MAXOBJ + 1> &, const long &>
  tie() const { return std::tie(sc, ref, r1, r2, rr, rb, site, home, freed, nobj); }
  bool operator<(const RW &o) const { return tie() < o.tie(); }
  bool operator==(const RW &o) const { return tie() == o.tie(); }
};
typedef std::vector<RW> RWSet;
void norm(RWSet &w) {
  std::sort(w.begin(), w.end());
  w.erase(std::unique(w.begin(), w.end()), w.end());
  if (w.size() > 256) w.resize(256);
}
int obj_of(long r) { return (int)(r / 8); }
int off_of(long r) { return (int)(r % 8); }
int cell_of(long r) { return obj_of(r) * 2 + off_of(r) / 4; }
std::string rstr(long r) { return r == 0 ? "null" : (r == UNDEF ? "?" : "o" + std::to_string(obj_of(r)) + "+" + std::to_string(off_of(r))); }
std::string wstr(const RW &w) {
  std::string s = "{x=" + std::to_string(w.sc[0]) + ",y=" + std::to_string(w.sc[1]) + ",b1=" + std::to_string(w.sc[2]) + ",b2=" + std::to_string(w.sc[3]) + ",p=" + rstr(w.ref[0]) + ",q=" + rstr(w.ref[1]) +
                  ",r=" + rstr(w.ref[2]);
  for (int o = 1; o <= w.nobj; o++) {
    s += ",o" + std::to_string(o) + "(site" + std::to_string(w.site[o]) + (w.freed[o] ? ",freed" : "") + "):";
    for (int k = 0; k < 2; k++) {
      int c = o * 2 + k;
      if (w.r1[c] != UNDEF) s += " R1[" + std::to_string(k * 4) + "]=" + std::to_string(w.r1[c]);
      if (w.r2[c] != UNDEF) s += " R2[" + std::to_string(k * 4) + "]=" + std::to_string(w.r2[c]);
      if (w.rr[c] != UNDEF) s += " RR[" + std::to_string(k * 4) + "]=" + rstr(w.rr[c]);
      if (w.rb[c] != UNDEF) s += " RB[" + std::to_string(k * 4) + "]=" + std::to_string(w.rb[c]);
    }
  }
  return s + "}";
}

enum Eng { E_NONE = 0, E_COPY, E_SWAP, E_JOIN, E_WIDEN, E_MEET };
struct ROp {
  std::string name;
  Op op;
  int eng = E_NONE;
  int tier = 0;
  bool bool_root = false; // also part of the alphabet of root 2 (boolean region with two objects)
};
std::vector<ROp> ALPHA;
Op mk(int kind) { Op o; o.kind = kind; return o; }
void add(const std::string &n, Op o, int tier = 0) { ROp a; a.name = n; a.op = o; a.tier = tier; ALPHA.push_back(a); }
void add_eng(const std::string &n, int e, int tier = 0) { ROp a; a.name = n; a.op.kind = -1; a.eng = e; a.tier = tier; ALPHA.push_back(a); }

Op ref_make(int ref, int rgn, long site) { Op o = mk(O_REF_MAKE); o.v0 = ref; o.v1 = rgn; o.k = 8; o.a = (int)site; return o; }
Op ref_store_v(int ref, int rgn, int val) { Op o = mk(O_REF_STORE); o.v0 = ref; o.v1 = rgn; o.v2 = val; return o; }
Op ref_store_k(int ref, int rgn, long k) { Op o = mk(O_REF_STORE); o.v0 = ref; o.v1 = rgn; o.v2 = -1; o.k = k; return o; }
Op ref_load(int ref, int rgn, int res) { Op o = mk(O_REF_LOAD); o.v0 = ref; o.v1 = rgn; o.v2 = res; return o; }
Op ref_gep(int r1, int g1, int r2, int g2, long off) { Op o = mk(O_REF_GEP); o.v0 = r1; o.v1 = g1; o.v2 = r2; o.v3 = g2; o.e = lin({}, off); return o; }
Op ref_assume(int kind, int a, int b = -1) { Op o = mk(O_REF_ASSUME); o.a = kind; o.v0 = a; o.v1 = b; o.k = 0; return o; }
Op ref_free(int rgn, int ref) { Op o = mk(O_REF_FREE); o.v0 = rgn; o.v1 = ref; return o; }
Op ref_select(int lhs, int rgn, int cond, int a, int b) { Op o = mk(O_REF_SELECT); o.v0 = lhs; o.v1 = rgn; o.v2 = cond; o.v3 = a; o.v4 = b; return o; }
Op reg_copy(int dst, int src) { Op o = mk(O_REG_COPY); o.v0 = dst; o.v1 = src; return o; }
Op reg_init(int r) { Op o = mk(O_REG_INIT); o.v0 = r; return o; }
Op assign(int x, LinExp e) { Op o = mk(O_ASSIGN); o.v0 = x; o.e = e; return o; }
Op forget(int x) { Op o = mk(O_FORGET); o.v0 = x; return o; }
Op bool_const(int b, bool val) { Op o = mk(O_BOOL_ASSIGN_CST); o.v0 = b; o.c = val ? cst({}, 0, C_LEQ) : cst({}, 1, C_LEQ); return o; } // 0<=0 / 1<=0
void mark_bool_root(std::initializer_list<const char *> names) {
  for (auto n : names)
    for (auto &a : ALPHA)
      if (a.name == n) a.bool_root = true;
}

void build_alphabet() {
  ALPHA.clear();
  add("p:=make_ref(R1,site1)", ref_make(VP, VR1, 1));
  add("q:=make_ref(R1,site2)", ref_make(VQ, VR1, 2));
  add("store(p,R1,x)", ref_store_v(VP, VR1, VX));
  add("store(p,R1,5)", ref_store_k(VP, VR1, 5));
  add("store(q,R1,7)", ref_store_k(VQ, VR1, 7));
  add("x:=load(p,R1)", ref_load(VP, VR1, VX));
  add("y:=load(q,R1)", ref_load(VQ, VR1, VY));
  add("q:=gep(p,R1,0)", ref_gep(VP, VR1, VQ, VR1, 0));
  add("q:=gep(p,R1,4)", ref_gep(VP, VR1, VQ, VR1, 4));
  // an offset that is a variable: y is 0 in one witness and 4 in the other and unknown to the domain ("may be the same cell")
  { Op o = ref_gep(VP, VR1, VQ, VR1, 0); o.e = lin({{1, VY}}, 0); add("q:=gep(p,R1,y)", o); }
  add("assume(p==q)", ref_assume(RC_EQ, VP, VQ));
  add("assume(p!=q)", ref_assume(RC_NEQ, VP, VQ));
  add("assume(p!=null)", ref_assume(RC_NOT_NULL, VP));
  add("x:=x+1", assign(VX, lin({{1, VX}}, 1)));
  add_eng("save", E_COPY);
  add_eng("join(saved)", E_JOIN);
  add_eng("widen(saved)", E_WIDEN);
  // tier 1
  add("r:=make_ref(RR,site3)", ref_make(VR, VRR, 3), 1);
  add("store(r,RR,p)", ref_store_v(VR, VRR, VP), 1);
  add("q:=load(r,RR)", ref_load(VR, VRR, VQ), 1);
  add("store(q,R1,y)", ref_store_v(VQ, VR1, VY), 1);
  add("y:=load(p,R1)", ref_load(VP, VR1, VY), 1);
  add("R2:=copy(R1)", reg_copy(VR2, VR1), 1);
  add("y:=load(p,R2)", ref_load(VP, VR2, VY), 1);
  add("store(q,R2,9)", ref_store_k(VQ, VR2, 9), 1);
  add("free(R1,p)", ref_free(VR1, VP), 1);
  add("assume(p==null)", ref_assume(RC_NULL, VP), 1);
  add("assume(q!=null)", ref_assume(RC_NOT_NULL, VQ), 1);
  add("p:=ite(b1,q,null)", ref_select(VP, VR1, VB1, VQ, -1), 1);
  add("q:=ite(b1,null,p)", ref_select(VQ, VR1, VB1, -1, VP), 1);
  add("havoc(b1)", forget(VB1), 1);
  add("p:=make_ref(R1,site4)", ref_make(VP, VR1, 4), 1);
  // a region of booleans with its own objects
  add("p:=make_ref(RB,site5)", ref_make(VP, VRB, 5), 1);
  add("q:=make_ref(RB,site6)", ref_make(VQ, VRB, 6), 1);
  add("store(p,RB,b1)", ref_store_v(VP, VRB, VB1), 1);
  add("store(q,RB,b1)", ref_store_v(VQ, VRB, VB1), 1);
  add("b2:=load(p,RB)", ref_load(VP, VRB, VB2), 1);
  add("b2:=load(q,RB)", ref_load(VQ, VRB, VB2), 1);
  add_eng("swap", E_SWAP, 1);
  add_eng("meet(saved)", E_MEET, 1);
  // root 2 only (tier 2): definite boolean values
  add("b1:=true", bool_const(VB1, true), 2);
  add("b1:=false", bool_const(VB1, false), 2);
  add("q:=gep(p,RB,0)", ref_gep(VP, VRB, VQ, VRB, 0), 2);
  mark_bool_root({"b1:=true", "b1:=false", "q:=gep(p,RB,0)", "havoc(b1)", "store(p,RB,b1)", "store(q,RB,b1)", "b2:=load(p,RB)", "b2:=load(q,RB)",
                  "assume(p==q)", "assume(p!=q)", "save", "join(saved)", "widen(saved)", "swap", "p:=make_ref(RB,site5)"});
}
bool enabled(const ROp &a, int root, int maxtier) {
  if (root == 2) return a.bool_root;
  return a.tier <= maxtier && a.tier < 2;
}

// ---- concrete semantics -----------------------------------------------------------------
int ridx(int refvar) { return refvar == VP ? 0 : (refvar == VQ ? 1 : 2); }
std::array<long, NCELL> &rgn(RW &w, int g) { return g == VR1 ? w.r1 : (g == VR2 ? w.r2 : (g == VRB ? w.rb : w.rr)); }
bool live(const RW &w, long r) { return r != 0 && !w.freed[obj_of(r)]; }
// a reference is used with the region its object was allocated in (R2 is a copy of R1)
bool well_typed(const RW &w, long r, int g) {
  long h = w.home[obj_of(r)];
  return h == g || (g == VR2 && h == VR1);
}
long scalar_of(const RW &w, int v) { return v == VX ? w.sc[0] : (v == VY ? w.sc[1] : (v == VB1 ? w.sc[2] : w.sc[3])); }
void set_scalar(RW &w, int v, long val) { (v == VX ? w.sc[0] : (v == VY ? w.sc[1] : (v == VB1 ? w.sc[2] : w.sc[3]))) = val; }

bool cstep(const ROp &a, const RW &in, std::vector<RW> &out) {
  const Op &o = a.op;
  RW w = in;
  switch (o.kind) {
  case O_REF_MAKE: {
    if (w.nobj >= MAXOBJ) return false;
    w.nobj++;
    w.site[w.nobj] = o.a;
    w.home[w.nobj] = o.v1;
    w.ref[ridx(o.v0)] = w.nobj * 8;
    out.push_back(w);
    return true;
  }
  case O_REF_STORE: {
    long r = in.ref[ridx(o.v0)];
    if (!live(in, r) || !well_typed(in, r, o.v1)) return false;
    long val;
    if (o.v1 == VRR) val = in.ref[ridx(o.v2)];
    else val = o.v2 >= 0 ? scalar_of(in, o.v2) : o.k;
    rgn(w, o.v1)[cell_of(r)] = val;
    out.push_back(w);
    return true;
  }
  case O_REF_LOAD: {
    long r = in.ref[ridx(o.v0)];
    if (!live(in, r) || !well_typed(in, r, o.v1)) return false;
    long val = rgn(w, o.v1)[cell_of(r)];
    if (val == UNDEF) return false;
    if (o.v1 == VRR) w.ref[ridx(o.v2)] = val;
    else set_scalar(w, o.v2, val);
    out.push_back(w);
    return true;
  }
  case O_REF_GEP: {
    long r = in.ref[ridx(o.v0)];
    if (r == 0) return false;
    long off = off_of(r) + o.e.cst;
    for (auto &t : o.e.terms) off += t.first * scalar_of(in, t.second);
    if (off != 0 && off != 4) return false;
    if (!well_typed(in, r, o.v1)) return false;
    w.ref[ridx(o.v2)] = obj_of(r) * 8 + off;
    out.push_back(w);
    return true;
  }
  case O_REF_ASSUME: {
    long ra = in.ref[ridx(o.v0)], rb = o.v1 >= 0 ? in.ref[ridx(o.v1)] : 0;
    bool ok = true;
    switch (o.a) {
    case RC_NULL: ok = ra == 0; break;
    case RC_NOT_NULL: ok = ra != 0; break;
    case RC_EQ: ok = ra == rb; break;
    case RC_NEQ: ok = ra != rb; break;
    default: return false;
    }
    if (ok) out.push_back(w);
    return true;
  }
  case O_REF_FREE: {
    long r = in.ref[ridx(o.v1)];
    if (!live(in, r) || !well_typed(in, r, o.v0)) return false;
    w.freed[obj_of(r)] = 1;
    out.push_back(w);
    return true;
  }
  case O_REF_SELECT: {
    long a1 = o.v3 >= 0 ? in.ref[ridx(o.v3)] : 0, a2 = o.v4 >= 0 ? in.ref[ridx(o.v4)] : 0;
    w.ref[ridx(o.v0)] = in.sc[2] ? a1 : a2;
    out.push_back(w);
    return true;
  }
  case O_REG_COPY: rgn(w, o.v0) = rgn(w, o.v1); out.push_back(w); return true;
  case O_ASSIGN: w.sc[0] = in.sc[0] + o.e.cst; out.push_back(w); return true; // only x:=x+k
  case O_BOOL_ASSIGN_CST: w.sc[2] = o.c.holds(in.sc.data()) ? 1 : 0; out.push_back(w); return true; // constant conditions only
  case O_FORGET: // havoc(b1)
    for (long b : {0L, 1L}) { w.sc[2] = b; out.push_back(w); }
    return true;
  default: return false;
  }
}

struct Reg {
  std::unique_ptr<DomBox> box;
  RWSet W;
};
struct Node {
  Reg r[2];
  Node() {}
  Node(const Node &o) { *this = o; }
  Node &operator=(const Node &o) {
    for (int i = 0; i < 2; i++) {
      r[i].box = o.r[i].box->clone();
      r[i].W = o.r[i].W;
    }
    return *this;
  }
};

const DomEntry *DOM = nullptr;
std::string DOMNAME, CFGNAME;
int MAXD = 3, ROOT = 0;
long long n_nodes = 0, n_ops = 0, n_member = 0, n_probes = 0, n_pruned = 0, n_dropped = 0, n_null_def = 0, n_sites = 0, n_illformed = 0;
std::set<uint64_t> distinct_states;

RWSet initial_witnesses() {
  RWSet W;
  long sc[2][2] = {{0, 0}, {3, 4}};
  for (auto &s : sc)
    for (long b = 0; b < 2; b++) {
      RW w;
      w.sc = {s[0], s[1], b, 0};
      w.ref = {0, 0, 0};
      w.r1.fill(UNDEF);
      w.r2.fill(UNDEF);
      w.rr.fill(UNDEF);
      w.rb.fill(UNDEF);
      w.home.fill(0);
      w.site.fill(0);
      w.freed.fill(0);
      W.push_back(w);
    }
  norm(W);
  return W;
}
Node initial_node() {
  Node n;
  for (int i = 0; i < 2; i++) {
    n.r[i].box = DOM->make_top();
    if (ROOT == 0 || ROOT == 3) { // regions declared: the usual start of a function body
      n.r[i].box->apply(reg_init(VR1), nullptr);
      n.r[i].box->apply(reg_init(VRR), nullptr);
      n.r[i].box->apply(reg_init(VRB), nullptr);
    }
    // the references are null in every witness: tell the domain nothing (top is sound)
    n.r[i].W = initial_witnesses();
    if (ROOT == 2) { // a boolean region holding two objects, referenced by p and q
      n.r[i].box->apply(reg_init(VRB), nullptr);
      for (int which = 0; which < 2; which++) {
        ROp mk_op;
        mk_op.op = ref_make(which == 0 ? VP : VQ, VRB, 5 + which);
        n.r[i].box->apply(mk_op.op, nullptr);
        RWSet nw;
        for (auto &w : n.r[i].W) {
          std::vector<RW> out;
          if (cstep(mk_op, w, out)) nw.insert(nw.end(), out.begin(), out.end());
        }
        n.r[i].W = nw;
      }
    }
  }
  return n;
}

std::string path_str(const std::vector<int> &p) {
  std::string s;
  for (size_t i = 0; i < p.size(); i++) s += (i ? "." : "") + std::to_string(p[i]);
  return s;
}
std::string path_names(const std::vector<int> &p) {
  std::string s = ROOT == 0 ? "init(R1); init(RR); init(RB)" : (ROOT == 1 ? "(no region_init)" : (ROOT == 2 ? "init(RB); p:=make_ref(RB,site5); q:=make_ref(RB,site6)" : "init(R1); init(RR); init(RB); save; p:=make_ref(R1,site1); q:=gep(p,R1,0); store(p,R1,5); join(saved); save"));
  for (size_t i = 0; i < p.size(); i++) s += " ; " + ALPHA[p[i]].name;
  return s;
}
void report(const std::string &clause, const std::vector<int> &path, const std::string &detail) {
  vp::viol(DOMNAME + ":" + clause, "h|" + DOMNAME + "|" + CFGNAME + "|" + std::to_string(ROOT) + "|" + path_str(path),
           "[" + DOMNAME + " " + CFGNAME + "] " + path_names(path) + " => " + detail);
}

void check_reg(const Reg &r, const std::vector<int> &path) {
  if (r.W.empty()) return;
  if (r.box->is_bottom()) {
    report("bottom-but-reached", path, "state is bottom but " + wstr(r.W[0]) + " is a concrete state of this history");
    return;
  }
  // scalars
  int svars[2] = {VX, VY};
  Itv at[2] = {r.box->at(VX), r.box->at(VY)};
  std::vector<LinCst> cs = r.box->csts();
  for (auto &w : r.W) {
    n_member++;
    long vals[NVARS] = {0};
    vals[VX] = w.sc[0];
    vals[VY] = w.sc[1];
    for (int bi = 0; bi < 2; bi++) {
      Itv bv = r.box->at(bi == 0 ? VB1 : VB2);
      if (!bv.contains(w.sc[2 + bi])) {
        report("scalar:M3:boolean-misses-value", path, r.box->print() + " : at(" + var_name(bi == 0 ? VB1 : VB2) + ")=" + bv.str() + " misses " + wstr(w));
        return;
      }
    }
    for (int i = 0; i < 2; i++)
      if (!at[i].contains(w.sc[i])) {
        report("scalar:M3:interval-misses-value", path, r.box->print() + " : at(" + var_name(svars[i]) + ")=" + at[i].str() + " misses " + wstr(w));
        return;
      }
    for (auto &c : cs) {
      if (c.big) continue;
      bool ok = true;
      for (auto &t : c.e.terms)
        if (t.second != VX && t.second != VY) ok = false;
      if (ok && !c.holds(vals)) {
        report("scalar:M1:exported-constraint-false", path, r.box->print() + " : " + c.str() + " is false in " + wstr(w));
        return;
      }
    }
  }
  // reference queries
  int refs[3] = {VP, VQ, VR};
  for (int i = 0; i < 3; i++) {
    std::unique_ptr<DomBox> q = r.box->clone();
    int ans = q->is_null_ref(refs[i]);
    if (ans == N_TRUE || ans == N_FALSE) n_null_def++;
    std::vector<long> sites;
    bool have_sites = q->alloc_sites(refs[i], sites);
    if (have_sites) n_sites++;
    for (auto &w : r.W) {
      long rv = w.ref[i];
      if (ans == N_BOTTOM) { report("is_null_ref:bottom", path, r.box->print() + " : is_null_ref(" + var_name(refs[i]) + ") is bottom; " + wstr(w)); return; }
      if (ans == N_TRUE && rv != 0) { report("is_null_ref:true-but-not-null", path, r.box->print() + " : is_null_ref(" + var_name(refs[i]) + ")=true; " + wstr(w)); return; }
      if (ans == N_FALSE && rv == 0) { report("is_null_ref:false-but-null", path, r.box->print() + " : is_null_ref(" + var_name(refs[i]) + ")=false; " + wstr(w)); return; }
      if (have_sites && rv != 0) {
        long s = w.site[obj_of(rv)];
        if (std::find(sites.begin(), sites.end(), s) == sites.end()) {
          std::string ss;
          for (long x : sites) ss += std::to_string(x) + " ";
          report("alloc-sites:misses-actual-site", path, r.box->print() + " : allocation sites of " + var_name(refs[i]) + " = {" + ss + "} misses site " + std::to_string(s) + " of " + wstr(w));
          return;
        }
      }
    }
  }
  // loads through p and q from R1, R2 (ints) and RB (booleans)
  for (int g : {VR1, VR2, VRB})
    for (int rv : {VP, VQ}) {
      int scratch = g == VRB ? VB3 : VT1;
      std::unique_ptr<DomBox> p = r.box->clone();
      p->apply(ref_load(rv, g, scratch), nullptr);
      n_probes++;
      bool pb = p->is_bottom();
      Itv v = pb ? Itv() : p->at(scratch);
      for (auto &w : r.W) {
        long rf = w.ref[ridx(rv)];
        if (!live(w, rf) || !well_typed(w, rf, g)) continue;
        long cv = (g == VR1 ? w.r1 : (g == VR2 ? w.r2 : w.rb))[cell_of(rf)];
        if (cv == UNDEF) continue;
        if (pb) { report("load-makes-bottom", path, r.box->print() + " : load(" + var_name(rv) + "," + var_name(g) + ") gives bottom; " + wstr(w)); return; }
        if (!v.contains(cv)) {
          report("load-misses-value", path, r.box->print() + " : load(" + var_name(rv) + "," + var_name(g) + ") = " + v.str() + " misses the stored value " + std::to_string(cv) + " of " + wstr(w));
          return;
        }
      }
    }
}

enum Status { ST_OK, ST_SKIP };
bool ill_formed(const std::string &msg) {
  // histories that CrabIR's own rules exclude, not properties of the domain
  return msg.find("cannot be initialized twice") != std::string::npos;
}
Status apply_op(const ROp &a, Node &n, const std::vector<int> &path) {
  n_ops++;
  try {
    switch (a.eng) {
    case E_COPY: n.r[1].box = n.r[0].box->clone(); n.r[1].W = n.r[0].W; return ST_OK;
    case E_SWAP: std::swap(n.r[0], n.r[1]); return ST_OK;
    case E_JOIN:
    case E_WIDEN: {
      Op o = mk(a.eng == E_JOIN ? O_JOIN : O_WIDEN);
      if (a.eng == E_WIDEN) {
        std::unique_ptr<DomBox> l = n.r[1].box->clone();
        l->apply(o, n.r[0].box.get());
        n.r[0].box = std::move(l);
      } else
        n.r[0].box->apply(o, n.r[1].box.get());
      n.r[0].W.insert(n.r[0].W.end(), n.r[1].W.begin(), n.r[1].W.end());
      norm(n.r[0].W);
      return ST_OK;
    }
    case E_MEET: {
      Op o = mk(O_MEET);
      n.r[0].box->apply(o, n.r[1].box.get());
      RWSet both;
      std::set_intersection(n.r[0].W.begin(), n.r[0].W.end(), n.r[1].W.begin(), n.r[1].W.end(), std::back_inserter(both));
      n.r[0].W = both;
      return ST_OK;
    }
    default: break;
    }
    n.r[0].box->apply(a.op, nullptr);
    RWSet nw;
    for (auto &w : n.r[0].W) {
      std::vector<RW> out;
      if (!cstep(a, w, out)) { n_dropped++; continue; }
      nw.insert(nw.end(), out.begin(), out.end());
    }
    norm(nw);
    n.r[0].W = nw;
    return ST_OK;
  } catch (std::runtime_error &e) {
    if (ill_formed(e.what())) { n_illformed++; return ST_SKIP; }
    report("abort", path, std::string("operation aborts: ") + e.what());
    return ST_SKIP;
  }
}

// root 3: "maybe allocated": the join of the declared-regions state with the state after
// p:=make_ref(R1); q:=gep(p,R1,0); store(p,R1,5)  (the reference counter of R1 is then zero-or-one)
Node root_node() {
  Node n = initial_node();
  if (ROOT != 3) return n;
  const char *prefix[] = {"save", "p:=make_ref(R1,site1)", "q:=gep(p,R1,0)", "store(p,R1,5)", "join(saved)", "save"};
  std::vector<int> path;
  for (auto nm : prefix)
    for (int i = 0; i < (int)ALPHA.size(); i++)
      if (ALPHA[i].name == nm) { apply_op(ALPHA[i], n, path); break; }
  return n;
}

std::unordered_map<uint64_t, int> seen;
uint64_t state_key(const Node &n) {
  std::string s;
  for (int i = 0; i < 2; i++) {
    s += n.r[i].box->repr();
    s += "#";
    for (auto &w : n.r[i].W) s += wstr(w);
    s += "|";
  }
  return vp::fnv(s);
}

void dfs(Node &n, int depth, std::vector<int> &path, int lo, int hi, int maxtier) {
  if (depth >= MAXD) return;
  for (int oi = lo; oi < hi; oi++) {
    if (!enabled(ALPHA[oi], ROOT, maxtier)) continue;
    Node m = n;
    path.push_back(oi);
    vp::set_case("h|" + DOMNAME + "|" + CFGNAME + "|" + std::to_string(ROOT) + "|" + path_str(path));
    Status st = apply_op(ALPHA[oi], m, path);
    if (st == ST_OK) {
      n_nodes++;
      try {
        check_reg(m.r[0], path);
      } catch (std::runtime_error &e) {
        if (!ill_formed(e.what())) report("abort", path, std::string("query aborts: ") + e.what());
      }
      uint64_t key = state_key(m);
      if (distinct_states.size() < 2000000) distinct_states.insert(key);
      int remaining = MAXD - depth - 1;
      auto it = seen.find(key);
      if (it != seen.end() && it->second >= remaining)
        n_pruned++;
      else {
        seen[key] = remaining;
        if (vp::want_sample() && depth == MAXD - 1 && m.r[0].W.size() > 2) vp::sample("[" + DOMNAME + " " + CFGNAME + "] " + path_names(path) + " : " + m.r[0].box->print());
        dfs(m, depth + 1, path, 0, (int)ALPHA.size(), maxtier);
      }
    }
    path.pop_back();
  }
}

} // namespace

int main(int argc, char **argv) {
  vp::parse_args(argc, argv);
  vp::install_crash_handler();
  quiet_crab();
  bool th = vp::args().thorough();
  std::string only = vp::args().opt.count("domains") ? vp::args().opt["domains"] : "";
  int depth_core = vp::args().opt.count("depth-core") ? atoi(vp::args().opt["depth-core"].c_str()) : (th ? 5 : 4);
  int depth_ext = vp::args().opt.count("depth-ext") ? atoi(vp::args().opt["depth-ext"].c_str()) : (th ? 4 : 3);
  build_alphabet();

  if (!vp::args().replay.empty()) {
    auto f = vp::split(vp::args().replay, '|');
    DOM = find_domain(f[1]);
    if (!DOM) { fprintf(stderr, "unknown domain\n"); return 2; }
    DOMNAME = f[1];
    CFGNAME = f[2];
    for (auto &c : DOM->configs_thorough)
      if (c.name == CFGNAME) apply_config(c);
    for (auto &c : DOM->configs_quick)
      if (c.name == CFGNAME) apply_config(c);
    ROOT = atoi(f[3].c_str());
    std::vector<int> path, p;
    for (auto &t : vp::split(f[4], '.')) path.push_back(atoi(t.c_str()));
    Node n = root_node();
    for (int oi : path) {
      p.push_back(oi);
      if (apply_op(ALPHA[oi], n, p) != ST_OK) break;
      check_reg(n.r[0], p);
    }
    vp::finish();
    return 0;
  }

  uint64_t unit = 0;
  bool cut = false;
  for (auto &e : registry()) {
    if (cut) break;
    if (!only.empty() && ("," + only + ",").find("," + e.name + ",") == std::string::npos) continue;
    if (!(e.caps & CAP_REGION)) continue;
    DOM = &e;
    DOMNAME = e.name;
    const std::vector<Config> &cfgs = th ? e.configs_thorough : e.configs_quick;
    for (auto &cfg : cfgs) {
      if (cut) break;
      apply_config(cfg);
      CFGNAME = cfg.name;
      for (ROOT = 0; ROOT < 4 && !cut; ROOT++)
        for (int phase = 0; phase < 2 && !cut; phase++) {
          MAXD = phase == 0 ? depth_ext : depth_core;
          if (ROOT == 3 && phase == 0) continue; // root 3: core alphabet only
          if (ROOT == 1) MAXD = std::min(MAXD, 3); // without region_init everything is unknown: shallow exploration
          if (ROOT == 2 && phase == 0) continue;   // root 2 has a single alphabet
          if (ROOT == 2) MAXD = depth_core + 1;
          int maxtier = phase == 0 ? 1 : 0;
          for (int o1 = 0; o1 < (int)ALPHA.size() && !cut; o1++) {
            if (!enabled(ALPHA[o1], ROOT, maxtier)) continue;
            for (int o2 = 0; o2 < (int)ALPHA.size(); o2++) {
              if (!enabled(ALPHA[o2], ROOT, maxtier)) continue;
              if (!vp::mine(unit++)) continue;
              if (vp::past_deadline()) { vp::incomplete(DOMNAME + " " + CFGNAME + " phase " + std::to_string(phase)); cut = true; break; }
              seen.clear();
              Node n = root_node();
              std::vector<int> path = {o1};
              vp::set_case("h|" + DOMNAME + "|" + CFGNAME + "|" + std::to_string(ROOT) + "|" + path_str(path));
              if (apply_op(ALPHA[o1], n, path) != ST_OK) continue;
              if (o2 == 0) {
                n_nodes++;
                check_reg(n.r[0], path);
              }
              if (MAXD >= 2) dfs(n, 1, path, o2, o2 + 1, maxtier);
            }
          }
        }
    }
  }
  ROOT = 0;
  vp::stat("states", n_nodes);
  vp::stat("transitions", n_ops);
  vp::stat("traces_validated_against_impl", n_nodes);
  vp::stat("evaluations", n_nodes);
  vp::stat("member_checks", n_member);
  vp::stat("load_probes", n_probes);
  vp::stat("definite_null_answers", n_null_def);
  vp::stat("allocation_site_answers", n_sites);
  vp::stat("subtrees_pruned_as_seen", n_pruned);
  vp::stat("witnesses_left_model", n_dropped);
  vp::stat("ill_formed_histories_skipped", n_illformed);
  vp::stat("distinct_nontrivial", (long long)distinct_states.size());
  vp::finish();
  return 0;
}
