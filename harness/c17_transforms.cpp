// C17 — CFG transformations preserve behaviour (trace-set equality under a
// per-block visit bound, well-formedness), and
// C18 — liveness and assertion-dependence facts over-approximate real
// dependences (non-interference of dead variables; path-wise data flow).
// Every small CFG x statement alphabet, real crab::cfg objects, real transforms.
#include "common/progs.hpp"

#include <crab/analysis/dataflow/assertion_crawler.hpp>
#include <crab/analysis/dataflow/liveness.hpp>
#include <crab/analysis/fwd_analyzer.hpp>
#include <crab/checkers/assertion.hpp>
#include <crab/checkers/checker.hpp>
#include <crab/domains/intervals.hpp>
#include <crab/transforms/dce.hpp>
#include <crab/transforms/lower_safe_assertions.hpp>

using namespace vb;
using namespace vg;
using vh::cst;
using vh::lin;

namespace {

std::string PROP;
bool th = false;
std::vector<long> BOX = {-1, 0, 1};
int VISITS = 2;

std::vector<Stmt> ALPHA;
Stmt mk(int kind) { Stmt s; s.kind = kind; return s; }
void build_alphabet() {
  ALPHA.clear();
  auto add = [&](Stmt s, const std::string &n) { s.name = n; ALPHA.push_back(s); };
  add(mk(-1), "skip");
  { Stmt s = mk(O_ASSIGN); s.v0 = VX; s.e = lin({}, 0); add(s, "x:=0"); }
  { Stmt s = mk(O_ASSIGN); s.v0 = VX; s.e = lin({{1, VX}}, 1); add(s, "x:=x+1"); }
  { Stmt s = mk(O_ASSIGN); s.v0 = VX; s.e = lin({{1, VY}}); add(s, "x:=y"); }
  { Stmt s = mk(O_ASSIGN); s.v0 = VY; s.e = lin({{1, VX}, {1, VY}}); add(s, "y:=x+y"); }
  { Stmt s = mk(O_ASSIGN); s.v0 = VZ; s.e = lin({{1, VX}}); add(s, "z:=x"); }
  { Stmt s = mk(S_HAVOC); s.v0 = VY; add(s, "havoc(y)"); }
  { Stmt s = mk(O_ASSUME); s.c = cst({{1, VX}}, -1, C_LEQ); add(s, "assume(x<=1)"); }
  { Stmt s = mk(O_ASSUME); s.c = cst({{1, VX}, {-1, VY}}, 0, C_LT); add(s, "assume(x<y)"); }
  { Stmt s = mk(S_ASSERT); s.c = cst({{1, VX}}, -1, C_LEQ); add(s, "assert(x<=1)"); }
  { Stmt s = mk(S_ASSERT); s.c = cst({{-1, VY}}, -1, C_LEQ); add(s, "assert(y>=-1)"); }
  { Stmt s = mk(O_ARITH_VV); s.a = 0; s.v0 = VX; s.v1 = VX; s.v2 = VZ; add(s, "x:=x+z"); }
  // a select whose third operand is the only place where z is read
  { Stmt s = mk(O_SELECT); s.v0 = VX; s.c = cst({{1, VY}}, 0, C_LEQ); s.e = lin({}, 0); s.e2 = lin({{1, VZ}}); add(s, "x:=ite(y<=0,0,z)"); }
  if (th) {
    { Stmt s = mk(O_ASSIGN); s.v0 = VY; s.e = lin({}, 1); add(s, "y:=1"); }
    { Stmt s = mk(S_UNREACH); add(s, "unreachable"); }
    { Stmt s = mk(O_SELECT); s.v0 = VX; s.c = cst({{1, VY}}, 0, C_LEQ); s.e = lin({{1, VZ}}); s.e2 = lin({}, 0); add(s, "x:=ite(y<=0,z,0)"); }
  }
}

struct ProgId {
  int n;
  uint64_t edges;
  std::vector<int> st, st2;
  std::string spec() const {
    std::string s = std::to_string(n) + ":" + std::to_string(edges) + ":";
    for (size_t i = 0; i < st.size(); i++) s += (i ? "." : "") + std::to_string(st[i]);
    s += ":";
    for (size_t i = 0; i < st2.size(); i++) s += (i ? "." : "") + std::to_string(st2[i]);
    return s;
  }
};
GProg make_prog(const ProgId &id) {
  GProg p;
  p.blocks.resize(id.n);
  p.has_decl = true;
  p.fname = "f";
  p.outputs = {VX};
  for (int u = 0; u < id.n; u++) {
    for (int v = 0; v < id.n; v++)
      if ((id.edges >> (u * id.n + v)) & 1) p.blocks[u].succ.push_back(v);
    for (int which = 0; which < 2; which++) {
      int si = which == 0 ? id.st[u] : (id.st2.empty() ? 0 : id.st2[u]);
      if (si <= 0) continue;
      Stmt s = ALPHA[si];
      if (s.kind == S_ASSERT) s.a = u * 10 + which + 1;
      p.blocks[u].stmts.push_back(s);
    }
  }
  p.exit = id.n - 1; // the generator only produces skeletons whose last block has no successors
  return p;
}

// ---- trace enumeration -------------------------------------------------------------
struct TraceSet {
  std::set<uint64_t> hashes;
  std::map<uint64_t, std::string> text; // only filled when keep_text
  bool keep_text = false;
  long long execs = 0;
};

struct Walker {
  const PProg &p;
  TraceSet &T;
  bool only_exit;     // C17: only executions that complete the exit block
  std::vector<int> visits;
  Walker(const PProg &pp, TraceSet &t, bool oe) : p(pp), T(t), only_exit(oe), visits(pp.blocks.size(), 0) {}

  void record(const std::string &trace) {
    T.execs++;
    uint64_t h = vp::fnv(trace);
    T.hashes.insert(h);
    if (T.keep_text) T.text[h] = trace;
  }
  void finish(const std::string &trace, const Val &v, const char *how) {
    if (only_exit) return;
    record(trace + "|" + how);
  }
  // execute block b from statement index si
  void run(int b, size_t si, Val v, std::string trace) {
    const PBlock &blk = p.blocks[b];
    for (size_t i = si; i < blk.stmts.size(); i++) {
      const Stmt &s = blk.stmts[i];
      switch (s.kind) {
      case O_ASSUME: {
        bool h = s.c.holds(v.v.data());
        trace += "A(" + s.c.str() + ")=" + (h ? "1;" : "0;");
        if (!h) { finish(trace, v, "stuck"); return; }
        break;
      }
      case S_ASSERT: {
        bool h = s.c.holds(v.v.data());
        trace += "A(" + s.c.str() + ")=" + (h ? "1;" : "0;"); // same event as an assume (lowering keeps it)
        if (!h) { finish(trace, v, "assert-failed"); return; }
        break;
      }
      case O_BOOL_ASSUME: case S_BOOL_ASSERT: {
        bool h = (v.v[s.v0] != 0) != (s.kind == O_BOOL_ASSUME && s.a);
        trace += std::string("B(") + var_name(s.v0) + ")=" + (h ? "1;" : "0;");
        if (!h) { finish(trace, v, "stuck"); return; }
        break;
      }
      case S_HAVOC:
        for (long q : BOX) {
          Val t = v;
          t.v[s.v0] = q;
          run(b, i + 1, t, trace);
        }
        return;
      case S_UNREACH:
        finish(trace, v, "unreachable");
        return;
      default: {
        StepOut so;
        exec_stmt(s, v, so, BOX);
        if (so.next.empty()) { finish(trace, v, "stuck"); return; }
        if (so.next.size() == 1)
          v = so.next[0];
        else {
          for (auto &t : so.next) run(b, i + 1, t, trace);
          return;
        }
      }
      }
    }
    // end of block
    if (b == p.exit) {
      std::string out = "OUT";
      for (int o : p.outputs) out += "," + std::to_string(v.v[o]);
      record(trace + "|" + out);
      return;
    }
    if (blk.succ.empty()) { finish(trace, v, "dead-end"); return; }
    for (int s : blk.succ) {
      if (visits[s] >= VISITS) { finish(trace, v, "bound"); continue; }
      visits[s]++;
      run(s, 0, v, trace);
      visits[s]--;
    }
  }
};

std::vector<Val> box_states() {
  std::vector<Val> r;
  Val z;
  z.v.fill(0);
  for (long x : BOX)
    for (long y : BOX)
      for (long w : BOX) {
        Val t = z;
        t.v[VX] = x;
        t.v[VY] = y;
        t.v[VZ] = w;
        r.push_back(t);
      }
  return r;
}

void traces_from_entry(const PProg &p, TraceSet &T) {
  if (p.entry < 0) return;
  for (auto &v : box_states()) {
    Walker w(p, T, true);
    w.visits[p.entry] = 1;
    w.run(p.entry, 0, v, "");
  }
}

// ---- well-formedness ---------------------------------------------------------------
std::string wellformed(z_cfg_t &cfg, const std::string &entry, bool had_exit, const std::string &exit) {
  try {
    std::set<std::string> labels;
    for (auto it = cfg.label_begin(); it != cfg.label_end(); ++it) labels.insert(*it);
    if (!labels.count(cfg.entry())) return "entry-missing";
    if (cfg.entry() != entry) return "entry-changed";
    if (had_exit) {
      if (!cfg.has_exit()) return "exit-lost";
      if (!labels.count(cfg.exit())) return "exit-missing";
    }
    for (auto &l : labels) {
      auto &bb = cfg.get_node(l);
      for (auto const &s : boost::make_iterator_range(bb.next_blocks())) {
        if (!labels.count(s)) return "edge-to-missing-block";
        bool back = false;
        for (auto const &p : boost::make_iterator_range(cfg.get_node(s).prev_blocks()))
          if (p == l) back = true;
        if (!back) return "succ-without-pred";
      }
      for (auto const &p : boost::make_iterator_range(bb.prev_blocks())) {
        if (!labels.count(p)) return "edge-from-missing-block";
        bool fwd = false;
        for (auto const &s : boost::make_iterator_range(cfg.get_node(p).next_blocks()))
          if (s == l) fwd = true;
        if (!fwd) return "pred-without-succ";
      }
    }
  } catch (std::runtime_error &e) {
    return std::string("abort:") + e.what();
  }
  return "";
}

long long n_programs = 0, n_transforms = 0, n_traces = 0, n_changed = 0, n_perturb = 0, n_paths = 0, n_dead_facts = 0, n_assert_facts = 0;
std::set<uint64_t> distinct_sets;

typedef ikos::interval_domain<ikos::z_number, crab::cfg_impl::varname_t> intervals_t;
typedef crab::analyzer::intra_fwd_analyzer<z_cfg_ref_t, intervals_t> fwd_t;

std::string diff_sample(const PProg &a, const PProg &b, const std::set<uint64_t> &ha, const std::set<uint64_t> &hb) {
  TraceSet A, B;
  A.keep_text = B.keep_text = true;
  traces_from_entry(a, A);
  traces_from_entry(b, B);
  for (auto &kv : A.text)
    if (!hb.count(kv.first)) return "original trace lost: " + kv.second;
  for (auto &kv : B.text)
    if (!ha.count(kv.first)) return "new trace in transformed cfg: " + kv.second;
  return "?";
}

void check_c17(const ProgId &id, const GProg &gp, const std::string &spec) {
  std::unique_ptr<z_cfg_t> cfg = build_cfg(gp);
  PProg orig = decompile(*cfg);
  if (!orig.ok) return;
  TraceSet T0;
  traces_from_entry(orig, T0);
  n_traces += T0.execs;
  if (T0.hashes.size() > 1) distinct_sets.insert(vp::fnv(spec));
  const char *names[] = {"simplify", "dce", "lower_safe_assertions", "simplify+dce", "dce+simplify"};
  for (int tr = 0; tr < 5; tr++) {
    std::unique_ptr<z_cfg_t> c(cfg->clone());
    std::string tname = names[tr];
    try {
      z_cfg_ref_t ref(*c);
      auto do_dce = [&]() {
        crab::transforms::dead_code_elimination<z_cfg_ref_t> dce;
        dce.run(ref);
      };
      switch (tr) {
      case 0: c->simplify(); break;
      case 1: do_dce(); break;
      case 2: {
        typedef crab::checker::intra_checker<fwd_t> checker_t;
        typedef crab::checker::assert_property_checker<fwd_t> assert_chk_t;
        intervals_t top;
        crab::fixpoint_parameters fp;
        fwd_t a(ref, top, nullptr, fp);
        a.run(top);
        std::shared_ptr<assert_chk_t> prop(new assert_chk_t(0));
        checker_t chk(a, {prop});
        chk.run();
        std::set<const z_cfg_ref_t::statement_t *> safe(prop->get_safe_checks().begin(), prop->get_safe_checks().end());
        if (safe.empty()) continue;
        crab::transforms::lower_safe_assertions<z_cfg_ref_t> lsa(safe);
        lsa.run(ref);
        break;
      }
      case 3: c->simplify(); do_dce(); break;
      case 4: do_dce(); c->simplify(); break;
      }
    } catch (std::runtime_error &e) {
      vp::viol(tname + ":abort", spec, gp.str() + " => " + tname + " aborts: " + e.what());
      continue;
    }
    n_transforms++;
    std::string wf = wellformed(*c, blabel(0), true, blabel(gp.exit));
    if (!wf.empty()) {
      vp::viol(tname + ":not-well-formed:" + wf.substr(0, wf.find(':')), spec, gp.str() + " => after " + tname + ": " + wf);
      continue;
    }
    PProg tp = decompile(*c);
    if (!tp.ok) {
      vp::viol(tname + ":unknown-statement-after-transform", spec, gp.str());
      continue;
    }
    TraceSet T1;
    traces_from_entry(tp, T1);
    if (getenv("C17_DEBUG")) {
      crab::crab_string_os os;
      os << *c;
      fprintf(stderr, "%s: %s\n  traces before=%zu after=%zu\n", tname.c_str(), os.str().c_str(), T0.hashes.size(), T1.hashes.size());
    }
    size_t nb = 0, na = 0;
    for (auto &b : orig.blocks) nb += b.stmts.size() + 10;
    for (auto &b : tp.blocks) na += b.stmts.size() + 10;
    if (nb != na) n_changed++;
    if (T0.hashes != T1.hashes) {
      crab::crab_string_os os;
      os << *c;
      vp::viol(tname + ":trace-sets-differ", spec, gp.str() + " => after " + tname + ": " + diff_sample(orig, tp, T0.hashes, T1.hashes) + " ; transformed cfg: " + os.str());
    }
  }
}

// ---- C18 ---------------------------------------------------------------------------------
void continuation(const PProg &p, int block_after, const Val &v, TraceSet &T) {
  // executions continuing after the END of block `block_after`
  Walker w(p, T, false);
  const PBlock &blk = p.blocks[block_after];
  if (block_after == p.exit) {
    std::string out = "OUT";
    for (int o : p.outputs) out += "," + std::to_string(v.v[o]);
    w.record("|" + out);
    return;
  }
  if (blk.succ.empty()) { w.record("|dead-end"); return; }
  for (int s : blk.succ) {
    w.visits.assign(p.blocks.size(), 0);
    w.visits[s] = 1;
    w.run(s, 0, v, "");
  }
}

void check_c18(const ProgId &id, const GProg &gp, const std::string &spec) {
  std::unique_ptr<z_cfg_t> cfg = build_cfg(gp);
  PProg pp = decompile(*cfg);
  if (!pp.ok) return;
  z_cfg_ref_t ref(*cfg);
  // ---- liveness
  try {
    crab::analyzer::live_and_dead_analysis<z_cfg_ref_t> live(ref);
    live.exec();
    std::vector<Val> states = box_states();
    for (size_t b = 0; b < pp.blocks.size(); b++) {
      auto lo = live.get(pp.blocks[b].label);
      auto de = live.dead_exit(pp.blocks[b].label);
      if (lo.is_bottom()) continue; // block not processed by the analysis (cannot reach the exit): no claim
      for (int v : {VX, VY, VZ}) {
        bool is_live = false, in_dead = false;
        for (auto it = lo.begin(); it != lo.end(); ++it)
          if (var_index(*it) == v) is_live = true;
        for (auto it = de.begin(); it != de.end(); ++it)
          if (var_index(*it) == v) in_dead = true;
        if (is_live && in_dead) { vp::viol("liveness:live-and-dead", spec, gp.str() + " block " + pp.blocks[b].label + " var " + var_name(v)); continue; }
        if (is_live) continue;
        n_dead_facts++;
        // v is reported dead at the end of b: perturbing it must not change any continuation
        bool bad = false;
        for (auto &s : states) {
          if (s.v[v] != BOX[0]) continue; // canonical representative; compare against every other value
          TraceSet base;
          continuation(pp, (int)b, s, base);
          for (long q : BOX) {
            if (q == s.v[v]) continue;
            Val t = s;
            t.v[v] = q;
            TraceSet alt;
            continuation(pp, (int)b, t, alt);
            n_perturb++;
            if (base.hashes != alt.hashes) {
              vp::viol(std::string("liveness:dead-variable-influences-execution") + (in_dead ? ":dead_exit" : ":not-live-out"), spec,
                       gp.str() + " => " + var_name(v) + " reported dead at the end of " + pp.blocks[b].label + " but changing it from " + std::to_string(s.v[v]) + " to " + std::to_string(q) +
                           " (x=" + std::to_string(s.v[VX]) + ",y=" + std::to_string(s.v[VY]) + ",z=" + std::to_string(s.v[VZ]) + ") changes the rest of the execution");
              bad = true;
              break;
            }
          }
          if (bad) break;
        }
      }
    }
  } catch (std::runtime_error &e) {
    vp::viol("liveness:abort", spec, gp.str() + " => " + e.what());
  }
  // ---- assertion crawler
  for (int only_data = 0; only_data < 2; only_data++) {
    try {
      typedef crab::analyzer::assertion_crawler<z_cfg_ref_t> crawler_t;
      typename crawler_t::assert_map_t amap;
      typename crawler_t::summary_map_t summaries;
      crawler_t cr(ref, amap, summaries, only_data != 0, false);
      cr.exec();
      // reported facts per block: assertion id -> set of variables
      std::vector<std::map<int, std::set<int>>> facts(pp.blocks.size());
      for (size_t b = 0; b < pp.blocks.size(); b++) {
        auto res = cr.get_results(pp.blocks[b].label);
        if (res.is_top() ) continue;
        for (auto it = res.begin(); it != res.end(); ++it) {
          auto kv = *it;
          int aid = (int)kv.first.get().get_debug_info().get_id();
          std::set<int> vs;
          if (!kv.second.is_top())
            for (auto vit = kv.second.begin(); vit != kv.second.end(); ++vit) vs.insert(var_index(*vit));
          else
            vs = {VX, VY, VZ};
          facts[b][aid] = vs;
          n_assert_facts++;
        }
      }
      // every path b ~> assertion with each edge taken <= 2 times
      struct Item { int blk; std::vector<std::pair<int,int>> edges; std::vector<int> blocks; };
      for (size_t b0 = 0; b0 < pp.blocks.size(); b0++) {
        std::vector<Item> stack;
        stack.push_back({(int)b0, {}, {(int)b0}});
        while (!stack.empty()) {
          Item it = stack.back();
          stack.pop_back();
          // assertions in the last block of the path
          const PBlock &blk = pp.blocks[it.blk];
          bool cut = false; // an `unreachable` statement ends every execution of the block
          for (size_t si = 0; si < blk.stmts.size(); si++) {
            if (blk.stmts[si].kind == S_UNREACH) { cut = true; break; }
            if (blk.stmts[si].kind != S_ASSERT) continue;
            int aid = blk.stmts[si].a;
            n_paths++;
            auto f = facts[b0].find(aid);
            if (f == facts[b0].end()) {
              vp::viol(std::string("crawler:reachable-assertion-missing") + (only_data ? ":only_data" : ""), spec,
                       gp.str() + " => assertion #" + std::to_string(aid) + " is reachable from " + pp.blocks[b0].label + " but not listed there");
              continue;
            }
            // data flow along the path: run the statements (assumes ignored, havoc = 0) from states differing in one variable
            std::set<int> used;
            for (auto &t : blk.stmts[si].c.e.terms) used.insert(t.second);
            for (int v : {VX, VY, VZ}) {
              if (f->second.count(v)) continue;
              bool flows = false;
              for (auto &s0 : box_states()) {
                if (s0.v[v] != BOX[0]) continue;
                for (long q : BOX) {
                  if (q == s0.v[v]) continue;
                  Val a = s0, c = s0;
                  c.v[v] = q;
                  auto run_path = [&](Val &val) {
                    for (size_t k = 0; k < it.blocks.size(); k++) {
                      const PBlock &pb = pp.blocks[it.blocks[k]];
                      size_t upto = (k + 1 == it.blocks.size()) ? si : pb.stmts.size();
                      for (size_t j = 0; j < upto; j++) {
                        const Stmt &st = pb.stmts[j];
                        if (st.kind == O_ASSUME || st.kind == S_ASSERT || st.kind == S_UNREACH) continue;
                        if (st.kind == S_HAVOC) { val.v[st.v0] = 0; continue; }
                        StepOut so;
                        exec_stmt(st, val, so, BOX);
                        if (!so.next.empty()) val = so.next[0];
                      }
                    }
                  };
                  run_path(a);
                  run_path(c);
                  for (int u : used)
                    if (a.v[u] != c.v[u]) flows = true;
                }
              }
              if (flows) {
                std::string path;
                for (int pb : it.blocks) path += pp.blocks[pb].label + " ";
                vp::viol(std::string("crawler:flowing-variable-missing") + (only_data ? ":only_data" : ""), spec,
                         gp.str() + " => the value of " + var_name(v) + " at the entry of " + pp.blocks[b0].label + " flows into assertion #" + std::to_string(aid) + " along " + path + "but is not reported");
              }
            }
          }
          if (cut) continue;
          for (int s : blk.succ) {
            int cnt = 0;
            for (auto &e : it.edges)
              if (e.first == it.blk && e.second == s) cnt++;
            if (cnt >= 2 || it.blocks.size() >= 7) continue;
            Item nx = it;
            nx.blk = s;
            nx.edges.push_back({it.blk, s});
            nx.blocks.push_back(s);
            stack.push_back(nx);
          }
        }
      }
    } catch (std::runtime_error &e) {
      vp::viol("crawler:abort", spec, gp.str() + " => " + e.what());
    }
  }
}

void run_program(const ProgId &id) {
  GProg gp = make_prog(id);
  std::string spec = id.spec();
  vp::set_case(spec);
  n_programs++;
  if (PROP == "C17")
    check_c17(id, gp, spec);
  else
    check_c18(id, gp, spec);
  if (vp::want_sample() && id.n == 3 && id.st[0] && id.st[1] && id.st[2]) vp::sample(gp.str());
}

} // namespace

// ---- statement table: cloning and block merging preserve EVERY statement kind -----------------
// cfg::clone() and cfg::simplify() re-create statements through statement::clone(). For each
// statement kind of CrabIR (also those the concrete interpreter does not execute: arrays, regions,
// references, calls, intrinsics) a three-block chain b0 -> b1:[s] -> b2 is cloned and simplified;
// the printed statement must be unchanged in the clone and must survive the merge verbatim.
long long n_table = 0;
void statement_table() {
  using namespace crab::cfg_impl;
  typedef ikos::z_number zn;
  typedef crab::variable_or_constant<ikos::z_number, varname_t> voc_t;
  auto V = [](int i) { return var(i); };
  typedef std::function<void(z_basic_block_t &)> mkfn;
  std::vector<std::pair<std::string, mkfn>> T;
  auto lx = [&](int v, long k) { return lexp_t(V(v)) + zn((int64_t)k); };
  auto le = [&](int a, int b, long k) { return lcst_t(lexp_t(V(a)) - lexp_t(V(b)) <= zn((int64_t)k)); };
  T.push_back({"add_vv", [&](z_basic_block_t &b) { b.add(V(VX), V(VY), V(VZ)); }});
  T.push_back({"add_vk", [&](z_basic_block_t &b) { b.add(V(VX), V(VY), zn(3)); }});
  T.push_back({"sub_vv", [&](z_basic_block_t &b) { b.sub(V(VX), V(VY), V(VZ)); }});
  T.push_back({"sub_vk", [&](z_basic_block_t &b) { b.sub(V(VX), V(VY), zn(3)); }});
  T.push_back({"mul_vv", [&](z_basic_block_t &b) { b.mul(V(VX), V(VY), V(VZ)); }});
  T.push_back({"mul_vk", [&](z_basic_block_t &b) { b.mul(V(VX), V(VY), zn(3)); }});
  T.push_back({"div_vv", [&](z_basic_block_t &b) { b.div(V(VX), V(VY), V(VZ)); }});
  T.push_back({"div_vk", [&](z_basic_block_t &b) { b.div(V(VX), V(VY), zn(3)); }});
  T.push_back({"udiv_vv", [&](z_basic_block_t &b) { b.udiv(V(VX), V(VY), V(VZ)); }});
  T.push_back({"udiv_vk", [&](z_basic_block_t &b) { b.udiv(V(VX), V(VY), zn(3)); }});
  T.push_back({"rem_vv", [&](z_basic_block_t &b) { b.rem(V(VX), V(VY), V(VZ)); }});
  T.push_back({"rem_vk", [&](z_basic_block_t &b) { b.rem(V(VX), V(VY), zn(3)); }});
  T.push_back({"urem_vv", [&](z_basic_block_t &b) { b.urem(V(VX), V(VY), V(VZ)); }});
  T.push_back({"urem_vk", [&](z_basic_block_t &b) { b.urem(V(VX), V(VY), zn(3)); }});
  T.push_back({"and_vv", [&](z_basic_block_t &b) { b.bitwise_and(V(VX), V(VY), V(VZ)); }});
  T.push_back({"and_vk", [&](z_basic_block_t &b) { b.bitwise_and(V(VX), V(VY), zn(3)); }});
  T.push_back({"or_vv", [&](z_basic_block_t &b) { b.bitwise_or(V(VX), V(VY), V(VZ)); }});
  T.push_back({"or_vk", [&](z_basic_block_t &b) { b.bitwise_or(V(VX), V(VY), zn(3)); }});
  T.push_back({"xor_vv", [&](z_basic_block_t &b) { b.bitwise_xor(V(VX), V(VY), V(VZ)); }});
  T.push_back({"xor_vk", [&](z_basic_block_t &b) { b.bitwise_xor(V(VX), V(VY), zn(3)); }});
  T.push_back({"shl_vv", [&](z_basic_block_t &b) { b.shl(V(VX), V(VY), V(VZ)); }});
  T.push_back({"shl_vk", [&](z_basic_block_t &b) { b.shl(V(VX), V(VY), zn(3)); }});
  T.push_back({"lshr_vv", [&](z_basic_block_t &b) { b.lshr(V(VX), V(VY), V(VZ)); }});
  T.push_back({"lshr_vk", [&](z_basic_block_t &b) { b.lshr(V(VX), V(VY), zn(3)); }});
  T.push_back({"ashr_vv", [&](z_basic_block_t &b) { b.ashr(V(VX), V(VY), V(VZ)); }});
  T.push_back({"ashr_vk", [&](z_basic_block_t &b) { b.ashr(V(VX), V(VY), zn(3)); }});
  T.push_back({"assign", [&](z_basic_block_t &b) { b.assign(V(VX), lx(VY, 2) + lexp_t(V(VZ)) * zn(3)); }});
  T.push_back({"assume", [&](z_basic_block_t &b) { b.assume(le(VX, VY, 2)); }});
  T.push_back({"havoc", [&](z_basic_block_t &b) { b.havoc(V(VX)); }});
  T.push_back({"unreachable", [&](z_basic_block_t &b) { b.unreachable(); }});
  T.push_back({"select_cst", [&](z_basic_block_t &b) { b.select(V(VX), le(VY, VZ, 0), lx(VY, 1), lx(VZ, 2)); }});
  T.push_back({"select_var", [&](z_basic_block_t &b) { b.select(V(VX), V(VW), lx(VY, 1), lx(VZ, 2)); }});
  T.push_back({"assert", [&](z_basic_block_t &b) { b.assertion(le(VX, VY, 2), crab::cfg::debug_info("f.c", 7, 3, 41)); }});
  T.push_back({"trunc", [&](z_basic_block_t &b) { b.truncate(V(VX), V(VS8)); }});
  T.push_back({"sext", [&](z_basic_block_t &b) { b.sext(V(VS8), V(VX)); }});
  T.push_back({"zext", [&](z_basic_block_t &b) { b.zext(V(VX), V(VL64)); }});
  T.push_back({"callsite", [&](z_basic_block_t &b) { b.callsite("g", {V(VX), V(VY)}, {V(VZ), V(VW)}); }});
  T.push_back({"intrinsic", [&](z_basic_block_t &b) { b.intrinsic("foo", {V(VX)}, {voc_t(V(VY)), voc_t(zn(5), crab::variable_type(crab::INT_TYPE, 32))}); }});
  T.push_back({"array_init", [&](z_basic_block_t &b) { b.array_init(V(VA), lexp_t(zn(0)), lexp_t(zn(15)), lx(VX, 1), lexp_t(zn(4))); }});
  T.push_back({"array_store", [&](z_basic_block_t &b) { b.array_store(V(VA), lx(VI, 4), lx(VX, 1), lexp_t(zn(4))); }});
  T.push_back({"array_store_strong", [&](z_basic_block_t &b) { b.array_store(V(VS), lexp_t(zn(0)), lx(VX, 1), lexp_t(zn(4)), true); }});
  T.push_back({"array_store_range", [&](z_basic_block_t &b) { b.array_store_range(V(VA), lexp_t(zn(0)), lx(VI, 3), lx(VX, 1), lexp_t(zn(4))); }});
  T.push_back({"array_load", [&](z_basic_block_t &b) { b.array_load(V(VX), V(VA), lx(VI, 4), lexp_t(zn(4))); }});
  T.push_back({"array_assign", [&](z_basic_block_t &b) { b.array_assign(V(VA2), V(VA)); }});
  T.push_back({"region_init", [&](z_basic_block_t &b) { b.region_init(V(VR1)); }});
  T.push_back({"region_copy", [&](z_basic_block_t &b) { b.region_copy(V(VR2), V(VR1)); }});
  T.push_back({"region_cast", [&](z_basic_block_t &b) { b.region_cast(V(VR1), V(VR2)); }});
  T.push_back({"make_ref", [&](z_basic_block_t &b) { b.make_ref(V(VP), V(VR1), voc_t(zn(8), crab::variable_type(crab::INT_TYPE, 32)), crab::tag(3)); }});
  T.push_back({"remove_ref", [&](z_basic_block_t &b) { b.remove_ref(V(VR1), V(VP)); }});
  T.push_back({"load_from_ref", [&](z_basic_block_t &b) { b.load_from_ref(V(VX), V(VP), V(VR1)); }});
  T.push_back({"store_to_ref_var", [&](z_basic_block_t &b) { b.store_to_ref(V(VP), V(VR1), voc_t(V(VX))); }});
  T.push_back({"store_to_ref_cst", [&](z_basic_block_t &b) { b.store_to_ref(V(VP), V(VR1), voc_t(zn(5), crab::variable_type(crab::INT_TYPE, 32))); }});
  T.push_back({"gep_ref", [&](z_basic_block_t &b) { b.gep_ref(V(VQ), V(VR2), V(VP), V(VR1), lx(VI, 4)); }});
  T.push_back({"assume_ref", [&](z_basic_block_t &b) { b.assume_ref(refcst_t::mk_lt(V(VP), V(VQ), zn(4))); }});
  T.push_back({"assert_ref", [&](z_basic_block_t &b) { b.assert_ref(refcst_t::mk_not_null(V(VP)), crab::cfg::debug_info("f.c", 9, 1, 42)); }});
  T.push_back({"select_ref", [&](z_basic_block_t &b) { b.select_ref(V(VR), V(VR1), V(VB1), V(VP), V(VR1), V(VQ), V(VR2)); }});
  T.push_back({"select_ref_null_true", [&](z_basic_block_t &b) { b.select_ref_null_true_value(V(VR), V(VR1), V(VB1), V(VQ), V(VR2)); }});
  T.push_back({"select_ref_null_false", [&](z_basic_block_t &b) { b.select_ref_null_false_value(V(VR), V(VR1), V(VB1), V(VP), V(VR2)); }});
  T.push_back({"int_to_ref", [&](z_basic_block_t &b) { b.int_to_ref(V(VX), V(VR1), V(VP)); }});
  T.push_back({"ref_to_int", [&](z_basic_block_t &b) { b.ref_to_int(V(VR1), V(VP), V(VX)); }});
  T.push_back({"bool_assign_cst", [&](z_basic_block_t &b) { b.bool_assign(V(VB1), le(VX, VY, 2)); }});
  T.push_back({"bool_assign_refcst", [&](z_basic_block_t &b) { b.bool_assign(V(VB1), refcst_t::mk_eq(V(VP), V(VQ), zn(4))); }});
  T.push_back({"bool_assign_var", [&](z_basic_block_t &b) { b.bool_assign(V(VB1), V(VB2), false); }});
  T.push_back({"bool_not_assign", [&](z_basic_block_t &b) { b.bool_not_assign(V(VB1), V(VB2)); }});
  T.push_back({"bool_assume", [&](z_basic_block_t &b) { b.bool_assume(V(VB1)); }});
  T.push_back({"bool_not_assume", [&](z_basic_block_t &b) { b.bool_not_assume(V(VB1)); }});
  T.push_back({"bool_assert", [&](z_basic_block_t &b) { b.bool_assert(V(VB1), crab::cfg::debug_info("f.c", 11, 2, 43)); }});
  T.push_back({"bool_select", [&](z_basic_block_t &b) { b.bool_select(V(VB3), V(VB1), V(VB2), V(VB3)); }});
  T.push_back({"bool_and", [&](z_basic_block_t &b) { b.bool_and(V(VB3), V(VB1), V(VB2)); }});
  T.push_back({"bool_or", [&](z_basic_block_t &b) { b.bool_or(V(VB3), V(VB1), V(VB2)); }});
  T.push_back({"bool_xor", [&](z_basic_block_t &b) { b.bool_xor(V(VB3), V(VB1), V(VB2)); }});

  auto stmts_of = [](z_cfg_t &c) {
    // statements in chain order entry -> ... (each block has at most one successor here)
    std::vector<std::string> out;
    std::set<std::string> seen;
    std::string l = c.entry();
    while (seen.insert(l).second) {
      z_basic_block_t &bb = c.get_node(l);
      for (auto &st : bb) {
        crab::crab_string_os os;
        os << st;
        out.push_back(os.str());
      }
      auto nx = bb.next_blocks();
      if (nx.first == nx.second) break;
      l = *nx.first;
    }
    return out;
  };
  for (auto &kv : T) {
    n_table++;
    std::string spec = "table:" + kv.first;
    vp::set_case(spec);
    try {
      z_cfg_t cfg("b0", "b2");
      z_basic_block_t &b0 = cfg.insert("b0"), &b1 = cfg.insert("b1"), &b2 = cfg.insert("b2");
      b0 >> b1;
      b1 >> b2;
      b0.assign(var(VW), lexp_t(zn(1)));
      kv.second(b1);
      b2.assign(var(VV), lexp_t(zn(2)));
      std::vector<std::string> orig = stmts_of(cfg);
      std::unique_ptr<z_cfg_t> c1(cfg.clone());
      std::vector<std::string> cl = stmts_of(*c1);
      if (cl != orig) {
        vp::viol("cfg:clone:statement-changed:" + kv.first, spec, "cfg::clone() turned `" + (orig.size() > 1 ? orig[1] : "") + "` into `" + (cl.size() > 1 ? cl[1] : "") + "`");
        continue;
      }
      std::unique_ptr<z_cfg_t> c2(cfg.clone());
      c2->simplify();
      std::vector<std::string> si = stmts_of(*c2);
      if (si != orig)
        vp::viol("cfg:simplify:statement-changed:" + kv.first, spec, "cfg::simplify() turned `" + (orig.size() > 1 ? orig[1] : "") + "` into `" + (si.size() > 1 ? si[1] : "?") + "`");
    } catch (std::runtime_error &e) {
      vp::viol("cfg:statement-table:abort:" + kv.first, spec, e.what());
    }
  }
}

int main(int argc, char **argv) {
  vp::parse_args(argc, argv);
  vp::install_crash_handler();
  quiet_crab();
  PROP = vp::args().check;
  th = vp::args().thorough();
  if (th) { BOX = {-2, -1, 0, 1, 2}; VISITS = 2; }
  build_alphabet();
  int nalpha = (int)ALPHA.size();
  if (!vp::args().replay.empty() && vp::args().replay.rfind("table:", 0) == 0) {
    statement_table();
    vp::finish();
    return 0;
  }
  if (!vp::args().replay.empty()) {
    auto f = vp::split(vp::args().replay, ':');
    ProgId id;
    id.n = atoi(f[0].c_str());
    id.edges = strtoull(f[1].c_str(), 0, 10);
    for (auto &t : vp::split(f[2], '.')) id.st.push_back(atoi(t.c_str()));
    if (f.size() > 3 && !f[3].empty())
      for (auto &t : vp::split(f[3], '.')) id.st2.push_back(atoi(t.c_str()));
    run_program(id);
    vp::finish();
    return 0;
  }
  if (PROP == "C17" && vp::args().slice == 0) statement_table();
  uint64_t caseno = 0;
  int maxn = vp::args().opt.count("maxn") ? atoi(vp::args().opt["maxn"].c_str()) : 3;
  for (int n = 1; n <= maxn; n++) {
    uint64_t nst = 1;
    for (int i = 0; i < n; i++) nst *= nalpha;
    for (uint64_t edges = 0; edges < (1ULL << (n * n)); edges++) {
      // the last block is the exit: it must not have successors
      bool exit_ok = true;
      for (int v = 0; v < n; v++)
        if ((edges >> ((n - 1) * n + v)) & 1) exit_ok = false;
      if (!exit_ok) continue;
      for (uint64_t sc = 0; sc < nst; sc++) {
        if (!vp::mine(caseno++)) continue;
        static uint64_t mine_count = 0;
        if ((++mine_count & 0x3) == 0 && vp::past_deadline()) {
          vp::incomplete("n=" + std::to_string(n) + " cut at edges=" + std::to_string(edges));
          goto done;
        }
        ProgId id;
        id.n = n;
        id.edges = edges;
        uint64_t t = sc;
        for (int i = 0; i < n; i++) {
          id.st.push_back((int)(t % nalpha));
          t /= nalpha;
        }
        run_program(id);
        if (n <= 2) {
          // two statements in block 0 (all ordered pairs): definitions and uses inside one block
          for (int s2 = 1; s2 < nalpha; s2++) {
            if (id.st[0] == 0) break;
            ProgId id2 = id;
            id2.st2.assign(n, 0);
            id2.st2[0] = s2;
            run_program(id2);
          }
        }
      }
    }
  }
done:
  vp::stat("statement_kinds_cloned_and_merged", n_table);
  vp::stat("programs", n_programs);
  vp::stat("states", n_traces + n_perturb + n_programs);
  vp::stat("transitions", n_transforms + n_paths + n_perturb);
  vp::stat("traces_validated_against_impl", n_transforms + n_dead_facts + n_assert_facts);
  vp::stat("evaluations", n_transforms + n_perturb + n_paths);
  vp::stat("transform_changed_cfg", n_changed);
  vp::stat("dead_facts_tested", n_dead_facts);
  vp::stat("assertion_facts", n_assert_facts);
  vp::stat("distinct_nontrivial", PROP == "C17" ? (long long)distinct_sets.size() : n_dead_facts);
  vp::finish();
  return 0;
}
