# Registry of checks: property id -> jobs (binaries + arguments), evidence level,
# enumeration rule text. Used by /verif/check and by tools/gen_manifest.py.

CHECKS = {}

CHECKS["C08"] = {
    "level": "exploration",
    "technique": "exhaustive table enumeration of abstract scalars x operations against brute-force concrete members",
    "design_ref": "DESIGN.md §2 C08",
    "jobs": [{"bin": "c08_scalars", "deadline": {"quick": 200, "thorough": 1500}}],
    "rule": ("every ordered pair of abstract scalars of a finite alphabet (z_interval: all intervals with "
             "bounds in [-R,R] plus half-lines, top, bottom; q_interval on a quarter grid; congruences aZ+b "
             "with a<=R+2; interval-congruence pairs; all 8 signs; constants; 3-valued booleans; small ranges; "
             "disjunctive intervals = unions of <=2/3 intervals) x every operation; each result is compared "
             "with op(p,q) for every concrete member pair (infinite sides probed beyond the range). "
             "distinct_nontrivial = distinct (type,op,operand pair) cases whose operands and result are "
             "neither bottom nor top. R=4 quick, R=8 thorough."),
    "assumptions": [
        "concrete semantics of DESIGN.md §1.3 (truncating division, floor ashr, udiv/urem/lshr only on non-negative operands, shifts 0..16)",
        "members of unbounded values are probed at range edge+3 and at 1e4, 65536, 1000003",
    ],
    "level_text": ("Complete enumeration of the stated finite alphabets: every operand pair and operation is executed on "
                   "the real scalar classes and compared with brute-force concrete semantics; tightness of z_interval "
                   "+,-,*,neg,join,meet is checked against an independently computed hull."),
    "level_note": "Alphabet bounds R; harness concrete semantics; GMP-backed z_number used to build operands.",
}
