# Registry of checks: property id -> jobs (binaries + arguments), evidence level,
# enumeration rule text. Used by /verif/check and by tools/gen_manifest.py.

CHECKS = {}

CHECKS["C08"] = {
    "level": "exploration",
    "technique": "exhaustive table enumeration of abstract scalars x operations against brute-force concrete members",
    "design_ref": "DESIGN.md §2 C08",
    "jobs": [{"bin": "c08_scalars", "deadline": {"quick": 200, "thorough": 900}}],
    "rule": ("every ordered pair of abstract scalars of a finite alphabet (z_interval: all intervals with "
             "bounds in [-R,R] plus half-lines, top, bottom; q_interval on a quarter grid; congruences aZ+b "
             "with a<=R+2; interval-congruence pairs; all 8 signs; constants; 3-valued booleans; small ranges; "
             "disjunctive intervals = unions of <=2/3 intervals) x every operation; each result is compared "
             "with op(p,q) for every concrete member pair (infinite sides probed beyond the range). "
             "distinct_nontrivial = distinct (type,op,operand pair) cases whose operands and result are "
             "neither bottom nor top. R=4 quick, R=8 thorough."),
    "assumptions": [
        "concrete semantics of DESIGN.md §1.3 (truncating division, floor ashr, udiv/urem/lshr only on non-negative operands, shifts 0..16)",
        "members of unbounded values are probed at range edge+3 and at 1e4, 65536, 1000003",
    ],
    "level_text": ("Complete enumeration of the stated finite alphabets: every operand pair and operation is executed on "
                   "the real scalar classes and compared with brute-force concrete semantics; tightness of z_interval "
                   "+,-,*,neg,join,meet is checked against an independently computed hull."),
    "level_note": "Alphabet bounds R; harness concrete semantics; GMP-backed z_number used to build operands.",
}

CHECKS["C20"] = {
    "level": "exploration",
    "technique": "exhaustive boundary-alphabet tables of big-number operations recomputed with Python integers; brute-force evaluation of all small linear expressions/constraints over a valuation box",
    "design_ref": "DESIGN.md §2 C20",
    "jobs": [
        {"bin": "c20_numbers", "args": ["--part", "numbers"], "pipe": "harness/pyref/check_numbers.py",
         "deadline": {"quick": 200, "thorough": 900}},
        {"bin": "c20_numbers", "args": ["--part", "linear"], "deadline": {"quick": 200, "thorough": 900}},
    ],
    "rule": ("z_number: all ordered pairs of the boundary alphabet {0,+-1,2,3,7,+-(2^31-1..2^31+1),+-2^32,+-(2^63-1..2^63+1),"
             "+-2^64,+-(2^64+1),+-10^30} (29 values; 61 thorough) x {+,-,*,/,%,&,|,^,comparisons, compound assignments}, "
             "shifts by {0,1,2,31,32,63,64,65,70}, unary ops, int64/uint64/string/raw-data round trips; q_number: 45 "
             "fractions x all pairs; safe_i64: all int64-representable pairs (exact result or abort, never wrapped). "
             "Every row is recomputed by harness/pyref/check_numbers.py. Linear layer: all expressions c1*x+c2*y+k with "
             "coefficients in [-C,C] (C=2 quick, 3 thorough, built with explicit zero coefficients, plus 2^40-scaled ones) "
             "x all 4 constraint kinds; sums/differences of all pairs; scaling; renaming; negate(); tautology/contradiction; "
             "normalize() of all two-inequality systems; all decided on every valuation of [-4,4]^2. "
             "distinct_nontrivial = rows whose result differs from both operands and from 0/1, plus distinct constraints."),
    "assumptions": ["Python 3 int / fractions.Fraction as arithmetic reference", "division by zero excluded (precondition)"],
    "level_text": ("Complete enumeration of the stated operand alphabets on the real z_number/q_number/safe_i64/linear-constraint "
                   "classes with an independent big-integer reference; covers the 2^31/2^63/2^64 representation boundaries."),
    "level_note": "Alphabet and box bounds; Python big integers trusted.",
}

CHECKS["C13"] = {
    "level": "exploration",
    "technique": "exhaustive enumeration of fixed-width operands and wrapped intervals against modular arithmetic in unsigned __int128",
    "design_ref": "DESIGN.md §2 C13",
    "jobs": [{"bin": "c13_wrapped", "deadline": {"quick": 200, "thorough": 900}},
             {"bin": "c13_domain", "deadline": {"quick": 200, "thorough": 900}}],
    "rule": ("wrapint: widths 1..5 (7 thorough) ALL operand pairs, widths 1..64 all pairs of a boundary alphabet "
             "{0,1,2,3,smax,smin,smin+1,umax-1,umax,0x55..,0xAA..,w-1,w} x 18 binary ops, comparisons, unary ops, "
             "sext/zext/keep_lower, signed/unsigned bignum and string conversions. wrapped_interval: widths 1..4 "
             "(5 thorough) every (start,end), top, bottom; all ordered pairs x {+,-,*,SDiv,UDiv,SRem,URem,And,Or,Xor,"
             "Shl,LShr,AShr}, join/meet/widening(+thresholds)/narrowing/inclusion/trim, neg, half lines, "
             "Trunc/SExt/ZExt, to_interval, at: every bit-vector result of every member pair must be a member of the result. "
             "distinct_nontrivial = distinct operand pairs other than 0/1 (wrapint) or bottom/top (intervals). "
             "Domain job (c13_domain): the wrapped_interval_domain under machine semantics: all operation histories of depth <=6 core / <=4 everything (7 / 5) over "
             "an 8-bit variable s8, 32-bit x, y and 64-bit l64 (constants at the signed limits, +1/-1/*2, signed and unsigned division and remainder, "
             "shifts, bitwise operations, havoc, signed assumes, trunc/sext/zext between the widths, x+y, x*y, save/join/widening/meet), executed on "
             "sets of machine states (arithmetic modulo 2^w, constraints read as signed): every state must be in at(v) and satisfy the exported constraints."),
    "assumptions": ["LLVM semantics: division by zero, INT_MIN/-1 and shifts >= width are undefined and skipped",
                    "wrapint(z_number) only called when fits_wrapint() holds (documented precondition)"],
    "level_text": ("Complete enumeration of all operands at small widths (where every wrap-around/pole-crossing shape exists) plus "
                   "boundary operands at every width 1..64, on the real wrapint / wrapped_interval classes."),
    "level_note": "Widths bounded as stated; machine-integer *programs* for wrapped_interval_domain are covered by C01/C03 engines when instantiated with that domain.",
}

CHECKS["C07"] = {
    "level": "exploration",
    "technique": "exhaustive enumeration of all small digraphs x entry x successor orders on the real wto<cfg_ref>/wto<call_graph_ref>, checked against from-scratch well-formedness predicates",
    "design_ref": "DESIGN.md §2 C07",
    "jobs": [{"bin": "c07_wto", "deadline": {"quick": 200, "thorough": 900}}],
    "rule": ("every labelled digraph with n<=3 nodes (all 2^(n*n) edge sets incl. self loops, unreachable nodes) x every product "
             "of successor-list permutations; n=4: all 65536 graphs x {canonical, reversed, rotated} successor orders, also as call "
             "graphs of stub functions; thorough adds n=5: all 2^25 graphs x {canonical, reversed}. Each graph is built as a real "
             "crab cfg and WTO'd from every entry node (default and explicit-entry constructors). "
             "distinct_nontrivial = distinct (graph, order) cases containing a cycle through >= 2 nodes."),
    "assumptions": ["well-formedness predicates (each reachable node once, nesting shape, edge rule, nesting() = enclosing heads outermost first) are computed independently in the harness"],
    "level_text": ("Complete enumeration of every digraph up to the stated node count, every entry and the stated successor orders; "
                   "each case runs the real WTO construction and nesting table."),
    "level_note": "Graphs with more than 4 (5) nodes are not covered; the call-graph variant is covered for n<=4.",
}

CHECKS["C19"] = {
    "level": "model_checking",
    "technique": "stateless exhaustive exploration of all operation sequences up to a depth over two registers of the real containers, compared step by step with std::map / std::set reference models",
    "design_ref": "DESIGN.md §2 C19",
    "jobs": [{"bin": "c19_containers", "deadline": {"quick": 240, "thorough": 900}}],
    "rule": ("separate_domain<Key,interval>: two registers, every sequence of <=3 (4 thorough, first key set) operations from "
             "{set(k,v), join(k,v), forget k, join, meet, widening, widening_thresholds, narrowing, copy, set_to_bottom, top, 3 projections, "
             "rename onto a fresh key} applied to either register, over 2 (3 thorough) key alphabets of 6 adversarial indices "
             "(0,1,2,5,2^31,2^64-1 / 3,4,7,8,2^63,2^63+1 / high-bit patterns) and values {[0,0],[0,1],[1,2],[-oo,0],top,bottom}; "
             "patricia_tree_set and discrete_domain: every sequence of <=4 (5) operations from {add k, remove k, union, union_with, intersection, "
             "intersection_with, copy, clear/top, empty/bottom}. After every step: lookup of every key, iteration = exactly the non-top bindings once, "
             "size, is_top/is_bottom, inclusion both ways == pointwise, ==. states = operation histories executed (nothing merged); "
             "distinct_nontrivial = histories ending with both registers holding at least one binding/element. "
             "Large environments: separate_domain values with 4..8 bindings x every subset of keys x three orders of the key vector (increasing, "
             "decreasing, rotated): project(keys) and key-by-key forget must agree with the std::map model (project switches strategy with the size)."),
    "assumptions": ["rename only onto unbound fresh keys (documented precondition)", "interval<z_number> as value lattice (covered by C08)"],
    "level_text": ("Exhaustive stateless exploration of every operation history up to the stated depth on the real patricia-tree containers "
                   "(structure sharing through copies included), each step compared with a boring reference model."),
    "level_note": "Depth and key alphabets bounded as stated; histories are not merged so hidden sharing state cannot hide behind a state hash.",
}

_E3_ASSUME = [
    "witness sets are subsets of gamma (deterministic truncation to 2048 valuations, |v|<=1e6), so a reported escape is a genuine counterexample",
    "concrete semantics of DESIGN.md §1.3; udiv/urem/lshr only on non-negative operands; shifts 0..16",
    "narrowing only applied when the domain's own inclusion test says the pair is decreasing",
    "(domain, operation) pairs listed in known_unsupported.tsv abort by design and are pruned (counted in skipped_unsupported)",
]

CHECKS["C03"] = {
    "level": "model_checking",
    "technique": "stateless exhaustive exploration of all abstract-domain operation histories up to a depth on the real domains, each state checked against witness sets of concrete valuations",
    "design_ref": "DESIGN.md §2 C03",
    "jobs": [{"bin": "e3_hist", "args": ["--mode", "dfs"], "deadline": {"quick": 420, "thorough": 900}}],
    "rule": ("[domains that model booleans get a third phase: the boolean-focus alphabet = every boolean operation (assignments of constraints and "
             "constants, negated copies, and/or/xor, three select forms incl. lhs among the operands, int<->bool casts, assumes, forget) + 10 "
             "numerical operations that interact with the recorded facts (incl. expand onto a forgotten variable), one level deeper than the core "
             "phase; relational domains (zones, octagons and the wrappers around them) get a fourth phase: 20 operations over FOUR variables "
             "x,y,z,w (difference constraints along a chain and back, assignments between them, forget, join, meet, widening, save, swap), one "
             "level deeper than the core phase, witnesses over {-2..2}^4. In the quick tier the wrappers run the two focus phases with their "
             "first configuration only] for each of 35 domain instantiations (intervals, constants, signs, sign-constants, interval-congruences, sparse/split DBM, "
             "split octagons, disjunctive intervals, term domains x3, uf, fixed-tvpi, flat boolean x2, reduced product, powerset, value "
             "partitioning, lookahead widening, packing, array smashing x3, array adaptive x4, region x7) and each parameter configuration "
             "(quick: default + every single-flag flip; thorough: full product, e.g. 16 closure settings for zones and octagons, 32 region settings): "
             "ALL operation sequences over two registers from the extended alphabet (~120 ops: assignments incl. self-referencing and zero "
             "coefficients, every arithmetic/bitwise op with variable and constant operands, select, 26 assumes incl. non-unit/negative "
             "coefficients and 2^31, forget/project/rename/expand, normalize/minimize, join/meet/widening(+thresholds)/narrowing, copies, "
             "swap, boolean ops) to depth 2 (3 thorough) and from the core alphabet (~45 ops) to depth 3 (4). After every step every witness "
             "valuation must satisfy the exported constraints (M1), a disjunct of the disjunctive export (M2), the per-variable intervals of at() "
             "and operator[] (M3), non-bottomness (M4), every entailed query constraint (M5), and refinement with v==sigma(v) must not be bottom (M7). "
             "states = histories executed; distinct_nontrivial = distinct printed values at the deepest level."),
    "assumptions": _E3_ASSUME,
    "level_text": ("Every operation history inside the stated alphabet/depth is executed on the real domain objects (nothing merged, so lazily "
                   "normalised or shared representations cannot hide behind a state hash) and confronted with concrete witnesses."),
    "level_note": "Bounded depth and value box {-2..2}^3 (+{0,1}^2 booleans); Apron/Elina/LDD/PPLite domains are not built in this image.",
}

CHECKS["C04"] = {
    "level": "model_checking",
    "technique": "exhaustive history exploration plus all ordered pairs of a pool of reachable values, inclusion and lattice operations checked against witness sets",
    "design_ref": "DESIGN.md §2 C04",
    "jobs": [{"bin": "e3_hist", "args": ["--mode", "dfs"], "deadline": {"quick": 300, "thorough": 900}},
             {"bin": "e3_hist", "args": ["--mode", "pairs"], "deadline": {"quick": 300, "thorough": 900}}],
    "rule": ("(a) the C03 history space: at every node both ordered register pairs are tested: reflexivity, bottom<=a, a<=top, "
             "`a<=b` yes => every witness of a passes M1-M4 against b, make_top/make_bottom/set_to_* agree with is_top/is_bottom; "
             "(b) per domain/config a pool of distinct values reachable by core histories of depth <=2 (incl. values over different variable "
             "sets through forget/rename), capped at 250 (600 thorough), ALL ordered pairs: inclusion soundness, join contains both witness "
             "sets and is above both operands by the domain's own inclusion test, meet contains the common witnesses, widening contains both; "
             "(c) a second pool, uncapped: every value reached by <=2 operations of a 16-operation 'octagonal shapes' alphabet (constants of both "
             "signs, upper and lower bounds on x+y, x-y and the variables, forget), ALL ordered pairs, same clauses."),
    "assumptions": _E3_ASSUME,
    "level_text": "Complete enumeration of histories/pairs within the stated bounds on the real domains.",
    "level_note": "Pool cap and depth bound as stated (reported in evidence max.pool.*).",
}

CHECKS["C16"] = {
    "level": "model_checking",
    "technique": "exhaustive history exploration where every node works on copies: parents re-observed after their subtree, queries/normalize/minimize compared by exported meaning, direct/abstract_domain/abstract_domain_ref flavours run in lock step, and every copy/assignment/normalisation form followed by every later operation enumerated over all ordered pairs of a pool of reachable values",
    "design_ref": "DESIGN.md §2 C16",
    "jobs": [{"bin": "e3_hist", "args": ["--mode", "dfs"], "deadline": {"quick": 300, "thorough": 900}},
             {"bin": "e3_hist", "args": ["--mode", "lockstep"], "deadline": {"quick": 300, "thorough": 900}},
             {"bin": "e3_hist", "args": ["--mode", "linear"], "deadline": {"quick": 200, "thorough": 900}},
             {"bin": "e3_hist", "args": ["--mode", "copyforms"], "deadline": {"quick": 400, "thorough": 1500}}],
    "rule": ("the C03 history space; every child operates on a copy (copy construction) of its parent; after the whole subtree of a node "
             "returned, the parent's printed form and the solution set of its exported constraints/intervals over the value box must be unchanged "
             "(no sharing leak); query_all / normalize / minimize must leave that solution set unchanged; lock step: the same history on the "
             "direct domain type, on abstract_domain<V>(D) and on abstract_domain_ref<V>(D) must give equal bottomness, intervals and solution sets "
             "after every step (extended alphabet, depth 2 / 3). "
             "Linear job: every sequence of length 5 (6) over {x:=0, x:=x+1, y:=2, y:=x, assume(x<=0), assume(x>=1), forget(x), join, widening, "
             "r1:=r0, swap} is replayed from scratch IN PLACE on one object per flavour, so that no copy is alive except those the history makes "
             "(the copy-on-write wrapper is then the sole owner of its state); the three flavours must agree after every step (intervals, "
             "split_dbm, term_int (, split_oct, bool_int)). "
             "Copy-forms job: pool = every distinct value reached by <=3 (4) operations over {assume(x<=y), assume(y<=1), assume(x<=0), assume(x>=0), "
             "assume(x+y<=1), assume(y<=0), assume(y>=-1), x:=1, y:=2, forget(y)}; for every ORDERED pair (A,B) of the pool and V in {A, A|B, the fresh "
             "un-normalised widening result A||B}: each preparation of {copy construction, copy assignment into top / into B / into another fresh widening "
             "result, normalize, minimize, query_all, copy (constructed / assigned) that is then mutated while the source is used} followed by each later "
             "operation of {identity, forget(x), forget(y), assume(x<=0), x:=y, join B, meet B, widening with B} must give the same solution set over the "
             "box as the later operation applied to V itself (widening after a normalisation is not compared: its left operand is syntactic). Quick: 12 "
             "domains owning lazy/shared representations (all closure settings of the three graph domains); thorough: all domains, pool depth 4. The same job runs on the abstract_domain and abstract_domain_ref flavours (pool, copies and "
             "later operations all through the wrapper) for intervals and split_dbm (thorough: every domain, first configuration)."),
    "assumptions": _E3_ASSUME + ["meaning = solution set of exported linear constraints and intervals over the box; widening results are only required to be sound"],
    "level_text": "Complete enumeration of histories within the stated bounds on the real domains and wrappers.",
    "level_note": "Semantic (not structural) comparison; representation differences that do not change the exported meaning are not flagged.",
}

CHECKS["C12"] = {
    "level": "model_checking",
    "technique": "exhaustive enumeration of all ordered tuples of in-language constraints (and joins/meets/forgets/copies of such conjunctions) on the real domains, against brute-force integer satisfiability/implication in a box; lock-step lifted-vs-base histories",
    "design_ref": "DESIGN.md §2 C12",
    "jobs": [{"bin": "c12_exact", "args": ["--mode", "exact"], "deadline": {"quick": 420, "thorough": 900}},
             {"bin": "c12_exact", "args": ["--mode", "lifting"], "deadline": {"quick": 240, "thorough": 900}},
             {"bin": "c12_exact", "args": ["--mode", "meet4"], "deadline": {"quick": 240, "thorough": 900}},
             {"bin": "c12_exact", "args": ["--mode", "inc5"], "deadline": {"quick": 240, "thorough": 900}}],
    "rule": ("languages over x,y,z with |k|<=2: intervals 30 constraints, zones 60, octagons 90. For intervals, sparse_dbm, split_dbm, split_oct "
             "and every closure-parameter setting (5 quick / 16 thorough): every single constraint, every ORDERED pair (added one at a time, as one "
             "system, and with the last one added to a copy) and every ordered triple (quick: default setting, third constant |k|<=1); forget of each "
             "variable; meet and join of all pairs from a pool of conjunctions with <=2 constraints. Oracle: exact solution set as a bitset over "
             "[-10,10]^3: bottom <=> no solution; entails(c) <=> implied for EVERY language constraint c with |k|<=3; at(v) = exact projection "
             "(nested boxes detect unbounded directions); join entails c <=> both operands do (least upper bound); meet/forget exact. "
             "Lifting clause: all straight-line numerical histories (extended C03 alphabet, depth 2/3) run in lock step on each boolean/array/"
             "region lifting and reduced product and on its base domain: lifted at(v) must be within base at(v). "
             "Job 3 (meet4): difference constraints v_i - v_j <= c over FOUR variables, c in {1,5} (24 constraints): every meet of one constraint with "
             "every set of three (both orders; thorough also two with two) on sparse_dbm, split_dbm, split_oct and every closure setting; oracle = "
             "Floyd-Warshall on the union: bottom iff negative cycle, every implied difference bound is entailed and no stronger one is. "
             "Job 4 (inc5): constraints v_i - v_j <= 1 over FIVE variables added one at a time: every set of four (in index order and reversed) "
             "followed by every fifth constraint, on sparse_dbm, split_dbm, split_oct and every closure setting; the closed form is observed through "
             "at(): with v_j == 0 added to a copy, the bounds of every other variable must equal the Floyd-Warshall distances."),
    "assumptions": ["a satisfiable conjunction of <=3 unit-coefficient constraints with |k|<=2 has a solution well inside [-10,10]^3 and bounded optima are attained strictly inside (nested-box test)"],
    "level_text": "Complete enumeration of the stated constraint tuples and pairs on the real domains with an exact brute-force integer oracle.",
    "level_note": "Three variables, |k|<=2, up to 3 constraints; languages with more variables or larger constants are not covered.",
}

CHECKS["C06"] = {
    "level": "model_checking",
    "technique": "exhaustive enumeration of all small CFGs x exact block relations over a 16-state concrete space on the real interleaved fixpoint iterator, compared block by block with a naive Kleene least fixpoint",
    "design_ref": "DESIGN.md §2 C06",
    "jobs": [{"bin": "c06_fixpoint", "deadline": {"quick": 400, "thorough": 900}},
             {"bin": "e2_prog", "args": ["--family", "num"], "deadline": {"quick": 400, "thorough": 900}}],
    "rule": ("value type = subsets of {0..3}^2 (widening = join, narrowing = meet). Every real crab CFG with n<=3 blocks (all 2^(n*n) edge "
             "sets: entry with predecessors / as loop head, self loops, unreachable blocks, irreducible shapes; n=4 in thorough with a 4-relation "
             "menu) x every assignment of exact block relations from {id, x+1 mod 4, x<=1, x>=2, havoc x, x:=0, swap} x 5 initial sets x every "
             "admissible start block (cfg entry, or a block outside every WTO component) x assumption maps (none / one block / two blocks, 3 sets) "
             "x widening_delay {0,1,3} x descending_iterations {0,1,2}; get_pre and get_post of EVERY block must equal the naive least solution "
             "of pre(b) = (init_b U posts of preds) & assumption_b, post = rel(pre). states = (run, block) pairs compared; "
             "distinct_nontrivial = runs with a block whose least solution is neither empty nor full. "
             "Job 2 (real domains): every loop-bearing program of the C01 space on intervals, sign x constant, interval-congruences, zones, "
             "disjunctive intervals and constants: the reference is the same engine with an unreachable widening_delay (join only, no narrowing; "
             "programs whose join-only iteration needs more than 60 cycle iterations are skipped); with T = cycle iterations the reference needed, "
             "runs with widening_delay in {T, T+3} x thresholds {0,3} must give identical pre/post at every block, and for programs with exactly "
             "one simple cycle also widening_delay = T-1, the exact boundary of 'iterated at most widening_delay times'."),
    "assumptions": ["the reference Kleene iteration is written independently in the harness"],
    "level_text": "Complete enumeration of the stated CFG/relation/parameter space on the real fixpoint iterator with an exact oracle.",
    "level_note": "16-state concrete space and <=3 (4) blocks for the exact clause; the real-domain clause uses the engine itself without widening as reference.",
}

_E2_ASSUME = [
    "the concrete semantics of DESIGN.md §1.3 is an under-approximation of the collecting semantics (ambiguous steps are stuck), so an escaping state is a genuine counterexample",
    "concrete exploration is bounded by a horizon of block transitions and |v|<=1e6; initial values and havoc range over {-2..2}",
    "the interpreter executes the statements decompiled from the real crab::cfg object handed to the analyzer",
    "the powerset domain is left out of program-level checks (known finding F-POWERSET), fixed_tvpi likewise (F-TVPI)",
]

CHECKS["C01"] = {
    "level": "model_checking",
    "technique": "exhaustive enumeration of small CrabIR programs built as real cfgs; explicit-state exploration of every concrete execution; every forward invariant checked to contain every reached state",
    "design_ref": "DESIGN.md §2 C01",
    "jobs": [{"bin": "e2_prog", "args": ["--family", "num"], "deadline": {"quick": 420, "thorough": 900}},
             {"bin": "e2_prog", "args": ["--family", "bool", "--maxn", "2"], "deadline": {"quick": 200, "thorough": 900}},
             {"bin": "e2_prog", "args": ["--family", "num", "--alpha", "2", "--maxn", "2", "--second", "1"], "deadline": {"quick": 300, "thorough": 900}}],
    "rule": ("all CFG skeletons with n<=3 blocks (every edge set: entry with predecessors, self loops, nested and irreducible cycles, unreachable "
             "blocks) x every assignment of <=1 statement per block from an alphabet of 9 (quick) / 14 (thorough) statements over x,y (constants, "
             "increments, copies, sums, havoc, assumes incl. strict and disequalities, multiplication), plus two-statement blocks for n=2; boolean "
             "family over x,y,b1 for the flat boolean domains; x 2 (3) initial values x 8 (20) domains x 3 (7) fixpoint parameter tuples "
             "(widening delay, descending iterations, thresholds, liveness pruning). For every block, every concrete state arriving at / leaving "
             "it must satisfy M1-M4 of get_pre / get_post. distinct_nontrivial = distinct printed invariants of the last block. "
             "Job 3: n<=2 blocks with the 33-statement alphabet (adds *2, -1, disequalities, equalities, /2, %2, &1, >>1, x*y, both select forms, "
             "negation, unreachable, udiv, urem, or, shl, in-place operations by constants incl. x*0, ...) and every two-statement block (quick: default "
             "fixpoint parameters only)."),
    "assumptions": _E2_ASSUME,
    "level_text": "Complete enumeration of the stated program space; each program's concrete state space is explored exhaustively within the horizon and every analysis runs on the real analyzer.",
    "level_note": "Programs with more than 3 blocks / 1-2 statements per block, other statement kinds and values outside the box are not covered.",
}

CHECKS["C02"] = {
    "level": "model_checking",
    "technique": "same program enumeration with assertions; verdicts of the intra forward checker and of the forward+backward analyzer (all fwd_bwd parameter settings) confronted with explicit-state exploration",
    "design_ref": "DESIGN.md §2 C02",
    "jobs": [{"bin": "e2_prog", "args": ["--family", "num"], "deadline": {"quick": 420, "thorough": 900}},
             {"bin": "e2_prog", "args": ["--family", "bool", "--maxn", "2"], "deadline": {"quick": 200, "thorough": 900}},
             {"bin": "e2_prog", "args": ["--family", "num", "--alpha", "2", "--maxn", "2", "--second", "1"], "deadline": {"quick": 300, "thorough": 900}},
             {"bin": "c09_inter", "deadline": {"quick": 300, "thorough": 900}}],
    "rule": ("the C01 program space restricted to programs containing at least one assertion (numeric assert(x<=1), assert(x>=0), assert(x<=y); "
             "bool_assert in the boolean family), each occurrence with its own debug id. For every domain / fixpoint parameter tuple: "
             "intra_fwd_analyzer + intra_checker(assert_property_checker) and intra_checker(div_zero_property_checker, assert_property_checker), and intra_forward_backward_analyzer with enable_backward x "
             "max_refine_iterations {0,1,5} x use_refined_invariants + intra_checker. SAFE => no explored execution reaches the assertion with a "
             "false condition; UNREACHABLE => no explored execution reaches it. Warnings are never judged. Job 3: n<=2 blocks with the 33-statement alphabet (division, remainder, bitwise, "
             "multiplication, both select forms, unreachable, ...) and every two-statement block (statement; assertion). Job 4: the C09 call-graph space with an "
             "assertion in main and one in the callee f (checked once per calling context: a location counts as SAFE / UNREACHABLE only if no recorded "
             "verdict is a warning or error): verdicts of the checker interleaved with the top-down inter-procedural analysis (every parameter tuple) and of "
             "inter_checker on the bottom-up analyzer (every domain pair) against the tabulated concrete oracle."),
    "assumptions": _E2_ASSUME,
    "level_text": "Complete enumeration of the stated program space with an explicit-state oracle for 'violated' and 'reached'.",
    "level_note": "Inter-procedural checkers are exercised by C09/C10.",
}

CHECKS["C05"] = {
    "level": "model_checking",
    "technique": "every analysis of the enumerated loop-bearing programs runs under a deterministic fixpoint-iteration budget (hook CRAB_VERIF_TICK); widening chains explored exhaustively over transformer alphabets",
    "design_ref": "DESIGN.md §2 C05",
    "jobs": [{"bin": "e2_prog", "args": ["--family", "num"], "deadline": {"quick": 420, "thorough": 900}},
             {"bin": "e2_prog", "args": ["--family", "num", "--alpha", "2", "--maxn", "2", "--second", "1"], "deadline": {"quick": 300, "thorough": 900}},
             {"bin": "c09_inter", "deadline": {"quick": 300, "thorough": 900}},
             {"bin": "e3_hist", "args": ["--mode", "pairs"], "deadline": {"quick": 300, "thorough": 900}},
             {"bin": "c13_domain", "deadline": {"quick": 100, "thorough": 300}}],
    "rule": ("the C01 program space restricted to programs with a cycle, every domain / fixpoint parameter tuple: the forward analysis must finish "
             "within 20000 fixpoint iterations (ascending + descending, counted by the tick hook placed in the wto cycle loops, the kill/gen "
             "iterator, the forward-backward refinement loop and the inter-procedural recursion). max.max_fixpoint_ticks reports the maximum observed. "
             "Job 2: n<=2 blocks, 33-statement alphabet, two-statement blocks. Job 3: every top-down and bottom-up inter-procedural analysis of the C09 call-graph space (recursive functions, precise recursion "
             "fixpoints) under a budget of 3000 iterations (the maximum observed on the unchanged tree is below 100). "
             "Job 4 (widening chains): per domain/config, for ALL ordered pairs (A,B) of the C04 pool of reachable values: acc:=A; repeat { nw:=acc|B; "
             "stop if nw<=acc; acc:=acc||nw } with the plain widening and with widening_thresholds must stop within 40 steps by the domain's own "
             "inclusion test (the engine's ascending loop for a body that always yields B). Job 5: the same chains (100 steps) for the "
             "wrapped-interval domain over the values reached by its core machine-mode histories of depth <=2."),
    "assumptions": ["budget 20000 is >50x the maximum observed on the unchanged tree; a violation is replayable because the budget is an iteration count, not wall-clock time"],
    "level_text": "Complete enumeration of the stated program space; non-termination is a deterministic, replayable verdict.",
    "level_note": "Widening/narrowing soundness clauses (result contains the arguments) are checked at operator level by C03/C04/C08.",
}

_INTER_SPACE = ("programs main + f(x)->y (+ g(y)->x, + h(v,i)->(z,w) when referenced) built as real cfgs with function declarations and callsites in a real "
                "call_graph; variable names are shared between all functions on purpose (actuals, formals and outputs cross: y:=g(x), x:=f(y), "
                "x:=f(x), (y,x):=h(x,y), (v,i):=h(i,v)). main = [m1][call1][m2][call2; assert] over 4 blocks, optionally with a loop around the first "
                "call (repeated calls with growing contexts), plus the multi-call family main = x:=a;y:=f(x); x:=b;y:=f(x); x:=c;y:=f(x); x:=d;y:=f(x) for every (a,b,c,d) in {-1,0,1}^4 with a call-free two-armed f (pairwise disjoint contexts that exceed the bound on calling contexts); f = straight-line or two-armed (x<=0 / x>=1) body over 7 (11 thorough) statements incl. "
                "direct recursion y:=f(z), the call y:=g(x) and the call (z,y):=h(x,x); g from 4 (6) bodies incl. direct recursion with a base case and mutual recursion "
                "with f; h from 2 (4) bodies. Every combination is enumerated. Oracle: tabulation of the concrete call semantics over the value box "
                "{-1,0,1} (values clipped to |v|<=4): a context is (function, frame at entry); contexts are explored to a least fixpoint, giving every "
                "terminating execution inside the box for every recursion depth.")

CHECKS["C09"] = {
    "level": "model_checking",
    "technique": "exhaustive enumeration of small call graphs (shared names, recursion, multi-output calls); explicit tabulation of all concrete calling contexts to a fixpoint; every top-down invariant, stored summary and interleaved-checker verdict confronted with it for every parameter tuple",
    "design_ref": "DESIGN.md §2 C09",
    "jobs": [{"bin": "c09_inter", "deadline": {"quick": 400, "thorough": 900}}],
    "rule": (_INTER_SPACE + " top_down_inter_analyzer on 2 (6) domains x 5 (10) parameter tuples (max_call_contexts in {unbounded,0,1,2}, exact / "
             "approximate summary reuse, precise / imprecise recursion, only_main_as_entry, widening delay / descending iterations / thresholds) x "
             "initial value top (and x<=0). Clauses: every state of a context reachable from an entry function is in get_pre/get_post of its block "
             "(M1-M4, restricted to the variables of that function); for every stored (pre, post) summary and every concrete call whose inputs "
             "satisfy pre, (inputs, outputs) is in post; SAFE/UNREACHABLE verdicts of the interleaved checker agree with the oracle."),
    "assumptions": ["functions do not assign their formal inputs (the summary design relates outputs to the formals' final values)",
                    "uninitialised callee locals are 0 in the oracle: one of the arbitrary values CrabIR allows, so the oracle is a subset of the real behaviours",
                    "'inputs satisfy the precondition' is decided through the exported views of pre; the summary clause therefore only runs on domains whose export is exact (intervals, zones, octagons), not on term_int / ric (thorough), whose invariants and verdicts are still checked"],
    "level_text": "Complete enumeration of the stated program space and of the parameter menu; the concrete call semantics is tabulated to a fixpoint (all recursion depths within the box).",
    "level_note": "Executions whose values leave the box are dropped (the oracle only gets smaller). Functions have at most 2 inputs / 2 outputs.",
}

CHECKS["C10"] = {
    "level": "model_checking",
    "technique": "same call-graph enumeration and tabulated oracle; bottom_up_inter_analyzer with every (summary domain, forward domain) pair: bottom-up summaries vs all terminating concrete calls, top-down invariants vs all reachable states",
    "design_ref": "DESIGN.md §2 C10",
    "jobs": [{"bin": "c09_inter", "deadline": {"quick": 400, "thorough": 900}}],
    "rule": (_INTER_SPACE + " Restricted to call graphs whose only entry is main (documented limitation of the analyzer). bottom_up_inter_analyzer with "
             "every ordered pair of summary / forward domain from 2 (4) domains wrapped in abstract_domain (so the generic convert_domains path is "
             "exercised) x 1 (3) fixpoint parameter tuples. Recursive programs with four functions are analysed under ALL 24 orders of the cfg "
             "vector handed to the call graph (vertex numbers decide the order of out-edges, SCCs and topological traversals). Clauses: get_summary(f) = (top, S): every terminating concrete call (inputs, outputs) "
             "of f from ANY input valuation is in S; every reachable state is in get_pre/get_post of its block."),
    "assumptions": ["as C09"],
    "level_text": "Complete enumeration of the stated program space x domain pairs.",
    "level_note": "as C09",
}

CHECKS["C11"] = {
    "level": "model_checking",
    "technique": "exhaustive enumeration of small CrabIR programs with assertions; explicit-state co-reachability (backward fixpoint over the explored concrete graph) confronted with the real necessary_preconditions_fixpoint_iterator, in error mode and good-final-state mode, with and without forward invariants",
    "design_ref": "DESIGN.md §2 C11",
    "jobs": [{"bin": "e2_prog", "args": ["--family", "num", "--alpha", "0"], "deadline": {"quick": 300, "thorough": 900}},
             {"bin": "e2_prog", "args": ["--family", "num", "--alpha", "2", "--maxn", "2", "--second", "1"], "deadline": {"quick": 300, "thorough": 900}}],
    "rule": ("job 1: the C01 program space (n<=3 blocks, 9-statement core alphabet + 3 assertions, all edge sets with an exit block); job 2: n<=2 "
             "with the 33-statement alphabet (adds *2, -1, disequalities, equalities, y:=1, y:=0, /2, %2, &1, >>1, x*y, select, negation, "
             "unreachable) and every two-statement block. For each program the concrete graph over the value box is built from every (block, "
             "state) root and the sets 'can go on to violate an assertion' / 'can reach the exit in a final state satisfying F' (F in {true, x<=0, "
             "x>=1}) are computed by backward propagation to a fixpoint. The real backward analysis (error mode: assertions as sources; good "
             "mode: F at the exit) on 6 backward-capable domains, with and without the forward invariants, must keep every such state in the "
             "precondition of its block (membership M1-M4). With forward invariants only states reachable from the entry are required."),
    "assumptions": _E2_ASSUME,
    "level_text": "Complete enumeration of the stated program space; co-reachability is decided on the explicit concrete graph.",
    "level_note": "Horizon-truncated executions only make the oracle smaller (fewer required states), never larger.",
}

CHECKS["C14"] = {
    "level": "model_checking",
    "technique": "bounded-exhaustive exploration of array-operation histories on the real array domains, executed in lock-step on sets of concrete witnesses (scalars + cell contents); after every step every cell of every witness is read back through array_load (constant index and symbolic index) and compared",
    "design_ref": "DESIGN.md §2 C14",
    "jobs": [{"bin": "c14_arrays", "deadline": {"quick": 300, "thorough": 900}}],
    "rule": ("two int arrays A, A2 with element size 4 and 6 cells, a single-cell array S, scalars x, y, i; alphabet of 25 core operations "
             "(array_init on full / partial ranges, stores at constant indices 0/4/8, at the symbolic index i and i+4, range stores, array_assign, "
             "loads at constant and symbolic indices, i:=0, i:=i+4, i:=nondet{0,4,8}, x:=x+1, the strong-update store on S, save / join / widening "
             "with the saved state) + 18 extended operations (second array, range stores with symbolic bounds, assumes on i, meet, swap). All "
             "histories of depth <=4 (core; 5 thorough) and <=3 (everything) with subtree pruning on identical (abstract state, "
             "witness set) pairs; 7 domains (array_smashing over intervals / zones / disjunctive intervals, array_adaptive over intervals / "
             "zones / flat-boolean / term) x 1-4 (16) array_adaptive parameter tuples (is_smashable, smash_at_nonzero_offset, max_smashable_cells, "
             "max_array_size in {0,1/2,64}). Clauses: a state with a concrete witness is never bottom, also not after a load; scalars of every "
             "witness satisfy M1/M3; for every written cell, at(t) after t:=A[k] contains the cell value, likewise for t:=A[i] at the witness's i."),
    "assumptions": ["uniform element size (documented word-level assumption)",
                    "a store is flagged is_strong_update only on the single-cell array (the flag is the client's claim that the store overwrites the whole array)",
                    "a cell never written since the array was made (array_init makes a fresh array) is outside the model: reading it drops the witness",
                    "range stores use upper bounds on which the documented (k<ub) and implemented (k<=ub) readings agree"],
    "level_text": "Complete enumeration of operation histories up to the stated depths over the stated alphabets, for every listed domain and parameter tuple.",
    "level_note": "Pruning merges two histories only if the abstract state's complete printed form and the witness sets coincide.",
}

CHECKS["C15"] = {
    "level": "model_checking",
    "technique": "bounded-exhaustive exploration of region/reference operation histories on the real region domain, executed in lock-step on sets of concrete heaps (objects with allocation sites, references, region contents); after every step loads through every reference and every reference query are compared with every heap",
    "design_ref": "DESIGN.md §2 C15",
    "jobs": [{"bin": "c15_regions", "deadline": {"quick": 300, "thorough": 900}}],
    "rule": ("int regions R1, R2 (copy of R1), reference region RR, references p, q (into R1/R2) and r (into RR), scalars x, y, boolean b1; alphabet "
             "of 16 core operations (ref_make at two allocation sites into the same region, stores of constants and variables through p and q, "
             "loads, ref_gep with offset 0 (alias), 4 (next cell of the same object) and y (a variable that is 0 in one witness, 4 in the other and unknown to the domain), assume p==q / p!=q / p!=null, x:=x+1, save / join / "
             "widening with the saved state) + 17 extended ones (references stored in and loaded from RR, region_copy and accesses to the copy, "
             "ref_free, assume p==null, select_ref with null, a third allocation site, meet, swap). All histories of depth <=4 core / <=3 "
             "everything (5 / 4 thorough), from the state after region_init(R1), region_init(RR), region_init(RB) and (depth <=3) from top without "
             "region_init; a third root = a boolean region RB holding two objects referenced by p and q, with its own alphabet (b1:=true/false, "
             "havoc(b1), stores of b1 through p and q, loads into b2, alias q:=gep(p,RB,0), assume p==q / p!=q, a new allocation, save / join / "
             "widening / swap) to depth 5 (6); a fourth root 'maybe allocated' = the join of the declared-regions state with the state after "
             "p:=make_ref(R1); q:=gep(p,R1,0); store(p,R1,5) (reference counter zero-or-one), core alphabet; "
             "7 domains (region domain over intervals, zones, constants, signs, sign x constant, flat boolean x intervals, array_adaptive) x "
             "every region_domain_params tuple of the configuration lists (allocation sites, deallocation, tag analysis, is_dereferenceable, "
             "skip_unknown_regions). Clauses: a state with a concrete heap is never bottom, also not after a load; scalars satisfy M1/M3; "
             "at(t) after t:=load(ref,R) contains the value stored in the addressed cell of every heap; is_null_ref true / false holds in "
             "every heap; a reported allocation-site set contains the site of the object the reference points to."),
    "assumptions": ["accesses through null or freed references, reads of never-written cells, gep outside an object and more than 4 objects leave the model (the heap is dropped)",
                    "a reference is used only with the region its object was allocated in (or the copy R2 of R1); an access with another region drops the heap"],
    "level_text": "Complete enumeration of operation histories up to the stated depths over the stated alphabets, for every listed domain and parameter tuple.",
    "level_note": "Tags (get_tags) need intrinsics to be set and are not exercised; address order constraints (<, <=) are not modelled.",
}

CHECKS["C17"] = {
    "level": "model_checking",
    "technique": "exhaustive enumeration of small CFGs; explicit enumeration of all executions under a per-block visit bound; trace-set equality between the original and the transformed real cfg, plus well-formedness",
    "design_ref": "DESIGN.md §2 C17",
    "jobs": [{"bin": "c17_transforms", "deadline": {"quick": 400, "thorough": 900}}],
    "rule": ("all skeletons with n<=3 blocks whose last block is the exit (no successors): entry with predecessors, self loops, unreachable blocks, "
             "blocks that cannot reach the exit; <=1 statement per block from a division-free alphabet of 11 (14 thorough) statements over x,y,z "
             "with a function declaration (output x), plus all ordered two-statement blocks for n<=2; transforms on clones: cfg::simplify(), "
             "dead_code_elimination, lower_safe_assertions (safe set from the interval checker), simplify+dce, dce+simplify. Oracle: the set of "
             "traces (sequence of evaluated conditions with outcomes + final output values) of ALL executions from every initial state in the box "
             "that complete the exit block with every block visited <=2 times must be EQUAL before and after; next/prev symmetric, entry and exit kept."),
    "assumptions": ["no removed statement can fail (division-free alphabet)", "per-block visit bound is invariant under chain merges, so equality (not inclusion) is the right comparison"],
    "level_text": "Complete enumeration of the stated program space; all executions within the visit bound are enumerated on both cfgs.",
    "level_note": "Initial/havoc values in {-1,0,1} (quick) / {-2..2} (thorough); n<=3.",
}

CHECKS["C18"] = {
    "level": "model_checking",
    "technique": "exhaustive enumeration of small CFGs; non-interference test of every variable reported dead (all states x all perturbations x all continuations) and path-wise data-flow test of the assertion crawler facts",
    "design_ref": "DESIGN.md §2 C18",
    "jobs": [{"bin": "c17_transforms", "deadline": {"quick": 400, "thorough": 900}}],
    "rule": ("the C17 program space. Liveness (live_and_dead_analysis): for every block b processed by the analysis and every variable v not "
             "live at the end of b, for every state in the box and every other value of v, the sets of continuation traces (conditions, assertion "
             "outcomes, terminal event: exit with outputs / stuck / assertion failure / unreachable / bound) from the end of b must be equal. "
             "Crawler (both only_data settings): for every block b and every CFG path from b to an assertion with each edge taken <=2 times the "
             "assertion must be listed at b, and every variable whose value at b changes the value of a variable used by the assertion when the "
             "path's statements are executed must be in the reported set."),
    "assumptions": ["semantic (not syntactic) flow is demanded, so a reported set may legitimately be larger"],
    "level_text": "Complete enumeration of the stated program space with exhaustive perturbation / path enumeration within the bounds.",
    "level_note": "Intra-procedural crawler only; n<=3.",
}
