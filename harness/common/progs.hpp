// Program layer (engine E2): small CrabIR programs as plain data, construction
// of the REAL crab::cfg objects from them, decompilation of a real cfg back to
// plain statements (so the concrete interpreter always executes what the
// analyzers see, also after CFG transformations), and the exhaustive concrete
// explorer (all initial states, havoc values and goto choices within bounds).
#pragma once
#include "common/dombox_impl.hpp"
#include "common/histops.hpp"

#include <map>
#include <memory>
#include <set>

namespace vg {
using namespace vb;
using vh::Val;
using crab::cfg_impl::z_basic_block_t;
using crab::cfg_impl::z_cfg_ref_t;
using crab::cfg_impl::z_cfg_t;

// extra statement kinds on top of vb::OpKind
enum SKind { S_HAVOC = 200, S_ASSERT, S_BOOL_ASSERT, S_UNREACH, S_CALL, S_UNKNOWN };

typedef vb::Op Stmt; // kind may be an OpKind or an SKind; a = assertion id for asserts

struct GBlock {
  std::vector<Stmt> stmts;
  std::vector<int> succ; // insertion order
};
struct GProg {
  std::vector<GBlock> blocks; // block 0 = entry
  int exit = -1;              // -1: no exit block declared
  bool has_decl = false;      // function declaration with outputs (C17/C18)
  std::string fname = "main";
  std::vector<int> inputs, outputs;
  std::string str() const;
};

inline std::string blabel(int i) { return "b" + std::to_string(i); }
inline int bindex(const std::string &l) { return atoi(l.c_str() + 1); }

inline std::string stmt_str(const Stmt &s) {
  if (!s.name.empty() && s.kind != S_CALL) return s.name;
  switch (s.kind) {
  case S_HAVOC: return std::string("havoc(") + var_name(s.v0) + ")";
  case S_ASSERT: return "assert#" + std::to_string(s.a) + "(" + s.c.str() + ")";
  case S_BOOL_ASSERT: return "assert#" + std::to_string(s.a) + "(" + var_name(s.v0) + ")";
  case S_UNREACH: return "unreachable";
  case S_CALL: {
    std::string r = "(";
    for (size_t i = 0; i < s.vars.size(); i++) r += std::string(i ? "," : "") + var_name(s.vars[i]);
    r += "):=" + s.name + "(";
    for (size_t i = 0; i < s.e.terms.size(); i++) r += std::string(i ? "," : "") + var_name(s.e.terms[i].second);
    return r + ")";
  }
  case O_ASSIGN: return std::string(var_name(s.v0)) + ":=" + s.e.str();
  case O_ASSUME: return "assume(" + s.c.str() + ")";
  case O_ARITH_VV: return std::string(var_name(s.v0)) + ":=" + var_name(s.v1) + " arith" + std::to_string(s.a) + " " + var_name(s.v2);
  case O_ARITH_VK: return std::string(var_name(s.v0)) + ":=" + var_name(s.v1) + " arith" + std::to_string(s.a) + " " + std::to_string(s.k);
  case O_BITW_VV: return std::string(var_name(s.v0)) + ":=" + var_name(s.v1) + " bitw" + std::to_string(s.a) + " " + var_name(s.v2);
  case O_BITW_VK: return std::string(var_name(s.v0)) + ":=" + var_name(s.v1) + " bitw" + std::to_string(s.a) + " " + std::to_string(s.k);
  case O_SELECT: return std::string(var_name(s.v0)) + ":=ite(" + s.c.str() + "," + s.e.str() + "," + s.e2.str() + ")";
  case O_BOOL_ASSIGN_CST: return std::string(var_name(s.v0)) + ":=(" + s.c.str() + ")";
  case O_BOOL_ASSIGN_VAR: return std::string(var_name(s.v0)) + ":=" + (s.a ? "not " : "") + var_name(s.v1);
  case O_BOOL_APPLY: return std::string(var_name(s.v0)) + ":=" + var_name(s.v1) + " bool" + std::to_string(s.a) + " " + var_name(s.v2);
  case O_BOOL_ASSUME: return std::string("assume(") + (s.a ? "not " : "") + var_name(s.v0) + ")";
  case O_BOOL_SELECT: return std::string(var_name(s.v0)) + ":=ite(" + var_name(s.v1) + "," + var_name(s.v2) + "," + var_name(s.v3) + ")";
  case O_CAST: return std::string(var_name(s.v0)) + ":=cast" + std::to_string(s.a) + "(" + var_name(s.v1) + ")";
  }
  return "stmt" + std::to_string(s.kind);
}
inline std::string GProg::str() const {
  std::string s;
  for (size_t i = 0; i < blocks.size(); i++) {
    s += blabel(i) + ": ";
    for (auto &st : blocks[i].stmts) s += stmt_str(st) + "; ";
    s += "goto";
    for (int t : blocks[i].succ) s += " " + blabel(t);
    s += (int)i == exit ? " [exit] | " : " | ";
  }
  return s;
}

// ---- build the real cfg -----------------------------------------------------
inline void add_stmt(z_basic_block_t &bb, const Stmt &s) {
  using ikos::z_number;
  auto V = [](int i) { return var(i); };
  switch (s.kind) {
  case O_ASSIGN: bb.assign(V(s.v0), to_lexp(s.e)); break;
  case O_ARITH_VV:
    switch (s.a) {
    case 0: bb.add(V(s.v0), V(s.v1), V(s.v2)); break;
    case 1: bb.sub(V(s.v0), V(s.v1), V(s.v2)); break;
    case 2: bb.mul(V(s.v0), V(s.v1), V(s.v2)); break;
    case 3: bb.div(V(s.v0), V(s.v1), V(s.v2)); break;
    case 4: bb.udiv(V(s.v0), V(s.v1), V(s.v2)); break;
    case 5: bb.rem(V(s.v0), V(s.v1), V(s.v2)); break;
    default: bb.urem(V(s.v0), V(s.v1), V(s.v2)); break;
    }
    break;
  case O_ARITH_VK: {
    z_number k((int64_t)s.k);
    switch (s.a) {
    case 0: bb.add(V(s.v0), V(s.v1), k); break;
    case 1: bb.sub(V(s.v0), V(s.v1), k); break;
    case 2: bb.mul(V(s.v0), V(s.v1), k); break;
    case 3: bb.div(V(s.v0), V(s.v1), k); break;
    case 4: bb.udiv(V(s.v0), V(s.v1), k); break;
    case 5: bb.rem(V(s.v0), V(s.v1), k); break;
    default: bb.urem(V(s.v0), V(s.v1), k); break;
    }
    break;
  }
  case O_BITW_VV:
    switch (s.a) {
    case 0: bb.bitwise_and(V(s.v0), V(s.v1), V(s.v2)); break;
    case 1: bb.bitwise_or(V(s.v0), V(s.v1), V(s.v2)); break;
    case 2: bb.bitwise_xor(V(s.v0), V(s.v1), V(s.v2)); break;
    case 3: bb.shl(V(s.v0), V(s.v1), V(s.v2)); break;
    case 4: bb.lshr(V(s.v0), V(s.v1), V(s.v2)); break;
    default: bb.ashr(V(s.v0), V(s.v1), V(s.v2)); break;
    }
    break;
  case O_BITW_VK: {
    z_number k((int64_t)s.k);
    switch (s.a) {
    case 0: bb.bitwise_and(V(s.v0), V(s.v1), k); break;
    case 1: bb.bitwise_or(V(s.v0), V(s.v1), k); break;
    case 2: bb.bitwise_xor(V(s.v0), V(s.v1), k); break;
    case 3: bb.shl(V(s.v0), V(s.v1), k); break;
    case 4: bb.lshr(V(s.v0), V(s.v1), k); break;
    default: bb.ashr(V(s.v0), V(s.v1), k); break;
    }
    break;
  }
  case O_SELECT: bb.select(V(s.v0), to_lcst(s.c), to_lexp(s.e), to_lexp(s.e2)); break;
  case O_ASSUME: bb.assume(to_lcst(s.c)); break;
  case S_HAVOC: bb.havoc(V(s.v0)); break;
  case S_ASSERT: bb.assertion(to_lcst(s.c), crab::cfg::debug_info((int64_t)s.a)); break;
  case S_BOOL_ASSERT: bb.bool_assert(V(s.v0), crab::cfg::debug_info((int64_t)s.a)); break;
  case S_UNREACH: bb.unreachable(); break;
  case S_CALL: { // name = callee, vars = lhs, e.terms = actual arguments (as in the decompiler)
    std::vector<z_var> lhs, args;
    for (int v : s.vars) lhs.push_back(V(v));
    for (auto &t : s.e.terms) args.push_back(V(t.second));
    bb.callsite(s.name, lhs, args);
    break;
  }
  case O_BOOL_ASSIGN_CST: bb.bool_assign(V(s.v0), to_lcst(s.c)); break;
  case O_BOOL_ASSIGN_VAR:
    if (s.a) bb.bool_not_assign(V(s.v0), V(s.v1)); else bb.bool_assign(V(s.v0), V(s.v1));
    break;
  case O_BOOL_APPLY:
    if (s.a == 0) bb.bool_and(V(s.v0), V(s.v1), V(s.v2));
    else if (s.a == 1) bb.bool_or(V(s.v0), V(s.v1), V(s.v2));
    else bb.bool_xor(V(s.v0), V(s.v1), V(s.v2));
    break;
  case O_BOOL_ASSUME:
    if (s.a) bb.bool_not_assume(V(s.v0)); else bb.bool_assume(V(s.v0));
    break;
  case O_BOOL_SELECT: bb.bool_select(V(s.v0), V(s.v1), V(s.v2), V(s.v3)); break;
  case O_CAST:
    if (s.a == 0) bb.truncate(V(s.v1), V(s.v0));
    else if (s.a == 1) bb.sext(V(s.v1), V(s.v0));
    else bb.zext(V(s.v1), V(s.v0));
    break;
  default: throw std::runtime_error("add_stmt: unsupported statement kind");
  }
}

inline std::unique_ptr<z_cfg_t> build_cfg(const GProg &p) {
  std::unique_ptr<z_cfg_t> cfg;
  typedef crab::cfg::function_decl<ikos::z_number, crab::cfg_impl::varname_t> decl_t;
  if (p.has_decl) {
    std::vector<z_var> ins, outs;
    for (int v : p.inputs) ins.push_back(var(v));
    for (int v : p.outputs) outs.push_back(var(v));
    decl_t d(p.fname, ins, outs);
    if (p.exit >= 0) cfg.reset(new z_cfg_t(blabel(0), blabel(p.exit), d));
    else cfg.reset(new z_cfg_t(blabel(0)));
  } else {
    if (p.exit >= 0) cfg.reset(new z_cfg_t(blabel(0), blabel(p.exit)));
    else cfg.reset(new z_cfg_t(blabel(0)));
  }
  for (size_t i = 0; i < p.blocks.size(); i++) cfg->insert(blabel(i));
  for (size_t i = 0; i < p.blocks.size(); i++) {
    z_basic_block_t &bb = cfg->get_node(blabel(i));
    for (auto &s : p.blocks[i].stmts) add_stmt(bb, s);
    for (int t : p.blocks[i].succ) bb >> cfg->get_node(blabel(t));
  }
  return cfg;
}

// ---- decompile a real cfg into plain statements ----------------------------
struct PBlock {
  std::string label;
  std::vector<Stmt> stmts;
  std::vector<int> succ; // indices into PProg::blocks
};
struct PProg {
  std::vector<PBlock> blocks;
  int entry = 0;
  int exit = -1;
  std::vector<int> outputs;
  bool ok = true; // false if an unknown statement/variable was met
  int index_of(const std::string &l) const {
    for (size_t i = 0; i < blocks.size(); i++)
      if (blocks[i].label == l) return (int)i;
    return -1;
  }
};

inline LinExp from_lexp(const lexp_t &e, bool &ok) {
  LinExp r;
  if (!to_long(e.constant(), r.cst)) ok = false;
  for (auto it = e.begin(); it != e.end(); ++it) {
    auto kv = *it;
    long c;
    if (!to_long(kv.first, c)) ok = false;
    int vi = var_index(kv.second);
    if (vi < 0) ok = false;
    r.terms.push_back({c, vi});
  }
  return r;
}

struct Decompiler : public crab::cfg::statement_visitor<std::string, ikos::z_number, crab::cfg_impl::varname_t> {
  std::vector<Stmt> *out = nullptr;
  bool ok = true;
  int vi(const z_var &v) {
    int i = var_index(v);
    if (i < 0) ok = false;
    return i;
  }
  void visit(bin_op_t &s) override {
    Stmt o;
    int code = (int)s.op();
    bool arith = code <= 6;
    o.v0 = vi(s.lhs());
    boost::optional<z_var> l = s.left().get_variable();
    if (!l) { ok = false; return; }
    o.v1 = vi(*l);
    boost::optional<z_var> r = s.right().get_variable();
    if (r) {
      o.kind = arith ? O_ARITH_VV : O_BITW_VV;
      o.v2 = vi(*r);
    } else if (s.right().is_constant()) {
      o.kind = arith ? O_ARITH_VK : O_BITW_VK;
      if (!to_long(s.right().constant(), o.k)) ok = false;
    } else {
      ok = false;
      return;
    }
    o.a = arith ? code : code - 7;
    out->push_back(o);
  }
  void visit(assign_t &s) override {
    Stmt o;
    o.kind = O_ASSIGN;
    o.v0 = vi(s.lhs());
    o.e = from_lexp(s.rhs(), ok);
    out->push_back(o);
  }
  void visit(assume_t &s) override {
    Stmt o;
    o.kind = O_ASSUME;
    o.c = to_lincst(s.constraint());
    if (o.c.big) ok = false;
    out->push_back(o);
  }
  void visit(select_t &s) override {
    Stmt o;
    o.kind = O_SELECT;
    o.v0 = vi(s.lhs());
    o.c = to_lincst(s.cond());
    if (o.c.big) ok = false;
    o.e = from_lexp(s.left(), ok);
    o.e2 = from_lexp(s.right(), ok);
    out->push_back(o);
  }
  void visit(assert_t &s) override {
    Stmt o;
    o.kind = S_ASSERT;
    o.c = to_lincst(s.constraint());
    if (o.c.big) ok = false;
    o.a = (int)s.get_debug_info().get_id();
    out->push_back(o);
  }
  void visit(int_cast_t &s) override {
    Stmt o;
    o.kind = O_CAST;
    o.a = (int)s.op();
    o.v0 = vi(s.dst());
    o.v1 = vi(s.src());
    out->push_back(o);
  }
  void visit(havoc_t &s) override {
    Stmt o;
    o.kind = S_HAVOC;
    o.v0 = vi(s.get_variable());
    out->push_back(o);
  }
  void visit(unreach_t &) override {
    Stmt o;
    o.kind = S_UNREACH;
    out->push_back(o);
  }
  void visit(callsite_t &s) override {
    Stmt o;
    o.kind = S_CALL;
    o.name = s.get_func_name();
    for (auto &v : s.get_lhs()) o.vars.push_back(vi(v));
    for (auto &v : s.get_args()) o.e.terms.push_back({1, vi(v)});
    out->push_back(o);
  }
  void visit(bool_bin_op_t &s) override {
    Stmt o;
    o.kind = O_BOOL_APPLY;
    o.a = (int)s.op();
    o.v0 = vi(s.lhs());
    o.v1 = vi(s.left());
    o.v2 = vi(s.right());
    out->push_back(o);
  }
  void visit(bool_assign_cst_t &s) override {
    Stmt o;
    if (!s.is_rhs_linear_constraint()) { ok = false; return; }
    o.kind = O_BOOL_ASSIGN_CST;
    o.v0 = vi(s.lhs());
    o.c = to_lincst(s.rhs_as_linear_constraint());
    if (o.c.big) ok = false;
    out->push_back(o);
  }
  void visit(bool_assign_var_t &s) override {
    Stmt o;
    o.kind = O_BOOL_ASSIGN_VAR;
    o.v0 = vi(s.lhs());
    o.v1 = vi(s.rhs());
    o.a = s.is_rhs_negated();
    out->push_back(o);
  }
  void visit(bool_assume_t &s) override {
    Stmt o;
    o.kind = O_BOOL_ASSUME;
    o.v0 = vi(s.cond());
    o.a = s.is_negated();
    out->push_back(o);
  }
  void visit(bool_assert_t &s) override {
    Stmt o;
    o.kind = S_BOOL_ASSERT;
    o.v0 = vi(s.cond());
    o.a = (int)s.get_debug_info().get_id();
    out->push_back(o);
  }
  void visit(bool_select_t &s) override {
    Stmt o;
    o.kind = O_BOOL_SELECT;
    o.v0 = vi(s.lhs());
    o.v1 = vi(s.cond());
    o.v2 = vi(s.left());
    o.v3 = vi(s.right());
    out->push_back(o);
  }
  // every other statement kind is not generated by the harness
  void visit(intrinsic_t &) override { unknown(); }
  void visit(arr_init_t &) override { unknown(); }
  void visit(arr_store_t &) override { unknown(); }
  void visit(arr_load_t &) override { unknown(); }
  void visit(arr_assign_t &) override { unknown(); }
  void visit(make_ref_t &) override { unknown(); }
  void visit(remove_ref_t &) override { unknown(); }
  void visit(region_init_t &) override { unknown(); }
  void visit(region_copy_t &) override { unknown(); }
  void visit(region_cast_t &) override { unknown(); }
  void visit(load_from_ref_t &) override { unknown(); }
  void visit(store_to_ref_t &) override { unknown(); }
  void visit(gep_ref_t &) override { unknown(); }
  void visit(assume_ref_t &) override { unknown(); }
  void visit(assert_ref_t &) override { unknown(); }
  void visit(select_ref_t &) override { unknown(); }
  void visit(int_to_ref_t &) override { unknown(); }
  void visit(ref_to_int_t &) override { unknown(); }
  void unknown() {
    Stmt o;
    o.kind = S_UNKNOWN;
    out->push_back(o);
    ok = false;
  }
};

inline PProg decompile(z_cfg_t &cfg) {
  PProg p;
  std::vector<std::string> labels;
  for (auto it = cfg.label_begin(); it != cfg.label_end(); ++it) labels.push_back(*it);
  std::sort(labels.begin(), labels.end());
  for (auto &l : labels) {
    PBlock b;
    b.label = l;
    p.blocks.push_back(b);
  }
  Decompiler d;
  for (auto &b : p.blocks) {
    z_basic_block_t &bb = cfg.get_node(b.label);
    d.out = &b.stmts;
    for (auto &s : bb) s.accept(&d);
    for (auto const &n : boost::make_iterator_range(bb.next_blocks())) b.succ.push_back(p.index_of(n));
  }
  p.ok = d.ok;
  p.entry = p.index_of(cfg.entry());
  p.exit = cfg.has_exit() ? p.index_of(cfg.exit()) : -1;
  if (cfg.has_func_decl()) {
    auto const &fd = cfg.get_func_decl();
    for (unsigned i = 0; i < fd.get_num_outputs(); i++) p.outputs.push_back(var_index(fd.get_output_name(i)));
  }
  for (auto &b : p.blocks)
    for (int s : b.succ)
      if (s < 0) p.ok = false;
  return p;
}

// ---- concrete execution of one statement ------------------------------------
struct StepOut {
  std::vector<Val> next;    // successor valuations (empty: stuck / filtered)
  int assert_id = -1;       // an assertion was evaluated
  bool assert_ok = true;
};

inline const std::vector<long> &havoc_box() {
  static std::vector<long> b = {-2, -1, 0, 1, 2};
  return b;
}

inline void exec_stmt(const Stmt &s, const Val &in, StepOut &out, const std::vector<long> &box) {
  out.next.clear();
  out.assert_id = -1;
  Val v = in;
  switch (s.kind) {
  case S_HAVOC:
    if (s.v0 == VB1 || s.v0 == VB2 || s.v0 == VB3) {
      for (long q : {0L, 1L}) { v.v[s.v0] = q; out.next.push_back(v); }
    } else
      for (long q : box) { v.v[s.v0] = q; out.next.push_back(v); }
    return;
  case S_ASSERT:
    out.assert_id = s.a;
    out.assert_ok = s.c.holds(in.v.data());
    if (out.assert_ok) out.next.push_back(v); // continues as an assume
    return;
  case S_BOOL_ASSERT:
    out.assert_id = s.a;
    out.assert_ok = in.v[s.v0] != 0;
    if (out.assert_ok) out.next.push_back(v);
    return;
  case S_UNREACH: return;
  case S_CALL:
    // intra-procedural reading: outputs are havoc'ed
    {
      std::vector<Val> cur = {in};
      for (int o : s.vars) {
        std::vector<Val> nxt;
        for (auto &c : cur)
          for (long q : box) { Val t = c; t.v[o] = q; nxt.push_back(t); }
        cur.swap(nxt);
      }
      out.next = cur;
    }
    return;
  case O_CAST: // mathematical integers: identity when representable in the destination
    {
      long x = in.v[s.v1];
      int dw = (s.v0 == VS8) ? 8 : (s.v0 == VL64) ? 64 : (s.v0 >= VB1 && s.v0 <= VB3) ? 1 : 32;
      int sw = (s.v1 == VS8) ? 8 : (s.v1 == VL64) ? 64 : (s.v1 >= VB1 && s.v1 <= VB3) ? 1 : 32;
      if (s.a == 0) { // trunc: only defined here when the value fits the narrower signed type
        if (dw < 63 && (x < -(1L << (dw - 1)) || x >= (1L << (dw - 1)))) return;
      } else if (s.a == 2) { // zext of a negative value is not the identity
        if (x < 0 && sw != 1) return;
      }
      v.v[s.v0] = x;
      out.next.push_back(v);
    }
    return;
  case S_UNKNOWN: return;
  default: {
    std::vector<Val> tmp;
    vh::concrete_step(s, in, tmp);
    out.next = tmp;
  }
  }
}

// ---- exhaustive concrete exploration ------------------------------------------
struct Concrete {
  // per block: distinct valuations at block entry / at block end (restricted to tracked vars)
  std::vector<std::set<Val>> pre, post;
  // assertions: id -> reached / violated
  std::map<int, bool> reached, violated;
  long long steps = 0, states = 0;
  bool horizon_hit = false;
};

struct ExploreCfg {
  int horizon = 12;             // block transitions
  std::vector<long> box = {-2, -1, 0, 1, 2};
  std::vector<int> vars = {VX, VY}; // variables that get initial values from the box
  bool bools = false;           // VB1 initial values {0,1}
  LinCst *init_cst = nullptr;   // optional initial constraint
};

inline void initial_states(const ExploreCfg &c, std::vector<Val> &out) {
  Val z;
  z.v.fill(0);
  std::vector<Val> cur = {z};
  for (int v : c.vars) {
    std::vector<Val> nxt;
    for (auto &s : cur)
      for (long q : c.box) { Val t = s; t.v[v] = q; nxt.push_back(t); }
    cur.swap(nxt);
  }
  if (c.bools) {
    std::vector<Val> nxt;
    for (auto &s : cur)
      for (long q : {0L, 1L}) { Val t = s; t.v[VB1] = q; nxt.push_back(t); }
    cur.swap(nxt);
  }
  for (auto &s : cur)
    if (!c.init_cst || c.init_cst->holds(s.v.data())) out.push_back(s);
}

// run all executions from (start block, each initial valuation)
inline void explore(const PProg &p, int start, const std::vector<Val> &inits, const ExploreCfg &c, Concrete &R,
                    const std::map<int, LinCst> *assumptions = nullptr) {
  size_t n = p.blocks.size();
  R.pre.assign(n, {});
  R.post.assign(n, {});
  // BFS over (block, valuation, depth); a state is re-expanded only if reached with a smaller depth
  std::map<std::pair<int, Val>, int> seen;
  std::vector<std::tuple<int, Val, int>> frontier, next;
  for (auto &v : inits) frontier.push_back(std::make_tuple(start, v, 0));
  StepOut so;
  while (!frontier.empty()) {
    next.clear();
    for (auto &t : frontier) {
      int b = std::get<0>(t);
      const Val &v0 = std::get<1>(t);
      int d = std::get<2>(t);
      if (assumptions) {
        auto it = assumptions->find(b);
        if (it != assumptions->end() && !it->second.holds(v0.v.data())) continue; // execution discarded
      }
      auto key = std::make_pair(b, v0);
      auto sit = seen.find(key);
      if (sit != seen.end() && sit->second <= d) continue;
      seen[key] = d;
      R.pre[b].insert(v0);
      R.states++;
      // run the block
      std::vector<Val> cur = {v0};
      for (auto &s : p.blocks[b].stmts) {
        std::vector<Val> nxt;
        for (auto &v : cur) {
          exec_stmt(s, v, so, c.box);
          R.steps++;
          if (so.assert_id >= 0) {
            R.reached[so.assert_id] = true;
            if (!so.assert_ok) R.violated[so.assert_id] = true;
          }
          nxt.insert(nxt.end(), so.next.begin(), so.next.end());
        }
        std::sort(nxt.begin(), nxt.end());
        nxt.erase(std::unique(nxt.begin(), nxt.end()), nxt.end());
        cur.swap(nxt);
        if (cur.empty()) break;
      }
      for (auto &v : cur) {
        R.post[b].insert(v);
        if (d + 1 > c.horizon) {
          if (!p.blocks[b].succ.empty()) R.horizon_hit = true;
          continue;
        }
        for (int s : p.blocks[b].succ) next.push_back(std::make_tuple(s, v, d + 1));
      }
    }
    frontier.swap(next);
  }
}

} // namespace vg
