// Template implementation of DomBox for a concrete crab domain type D.
// Included only by harness/doms/*.cpp (heavy).
#pragma once
#include "common/crabdefs.hpp"
#include "common/dombox.hpp"

#include <crab/domains/abstract_domain.hpp>
#include <crab/domains/abstract_domain_params.hpp>
#include <crab/domains/generic_abstract_domain.hpp>
#include <crab/domains/graphs/graph_config.hpp>
#include <crab/domains/intervals.hpp>
#include <crab/fixpoint/thresholds.hpp>

namespace vb {

using crab::cfg_impl::varname_t;
using crab::cfg_impl::z_var;
using ikos::z_number;
typedef ikos::linear_expression<z_number, varname_t> lexp_t;
typedef ikos::linear_constraint<z_number, varname_t> lcst_t;
typedef ikos::linear_constraint_system<z_number, varname_t> lsys_t;
typedef ikos::disjunctive_linear_constraint_system<z_number, varname_t> dlsys_t;
typedef ikos::interval<z_number> zitv_t;
typedef crab::reference_constraint<z_number, varname_t> refcst_t;
typedef crab::variable_or_constant<z_number, varname_t> varcst_t;

// global variable table shared by every TU (defined in common/vartable.cpp)
crab::cfg_impl::variable_factory_t &vfac();
const z_var &var(int idx);
int var_index(const z_var &v); // -1 if not one of ours
const crab::thresholds<z_number> &threshold_set(int idx);

inline bool to_long(const z_number &n, long &out) {
  if (!n.fits_int64()) return false;
  out = (long)(int64_t)n;
  return true;
}
inline Itv to_itv(const zitv_t &i) {
  Itv r;
  if (i.is_bottom()) {
    r.bottom = true;
    return r;
  }
  r.lb_inf = !i.lb().is_finite();
  r.ub_inf = !i.ub().is_finite();
  if (!r.lb_inf && !to_long(*i.lb().number(), r.lb)) { r.lb_inf = true; r.big = true; }
  if (!r.ub_inf && !to_long(*i.ub().number(), r.ub)) { r.ub_inf = true; r.big = true; }
  return r;
}
inline LinCst to_lincst(const lcst_t &c) {
  LinCst r;
  switch (c.kind()) {
  case lcst_t::EQUALITY: r.kind = C_EQ; break;
  case lcst_t::DISEQUATION: r.kind = C_DISEQ; break;
  case lcst_t::INEQUALITY: r.kind = C_LEQ; break;
  default: r.kind = C_LT; break;
  }
  const lexp_t &e = c.expression();
  if (!to_long(e.constant(), r.e.cst)) r.big = true;
  for (auto it = e.begin(); it != e.end(); ++it) {
    auto kv = *it;
    long co;
    if (!to_long(kv.first, co)) r.big = true;
    int vi = var_index(kv.second);
    if (vi < 0) r.big = true; // a variable we do not track (ghost): not evaluable
    r.e.terms.push_back({co, vi});
  }
  return r;
}
inline lexp_t to_lexp(const LinExp &e) {
  lexp_t r;
  bool first = true;
  for (auto &t : e.terms) {
    lexp_t term(z_number((int64_t)t.first), var(t.second)); // keeps an explicit zero coefficient
    if (first) {
      r = term;
      first = false;
    } else
      r = r + term;
  }
  r = r + z_number((int64_t)e.cst);
  return r;
}
inline lcst_t to_lcst(const LinCst &c) {
  lcst_t::kind_t k = c.kind == C_EQ ? lcst_t::EQUALITY : c.kind == C_DISEQ ? lcst_t::DISEQUATION
                     : c.kind == C_LEQ ? lcst_t::INEQUALITY : lcst_t::STRICT_INEQUALITY;
  return lcst_t(to_lexp(c.e), k);
}
inline crab::domains::arith_operation_t arith_op(int a) { return (crab::domains::arith_operation_t)a; }
inline crab::domains::bitwise_operation_t bitw_op(int a) { return (crab::domains::bitwise_operation_t)a; }

template <typename D> struct ReprOf {
  static std::string get(const D &d) {
    crab::crab_string_os os;
    os << d;
    return os.str();
  }
};

template <typename D> class BoxImpl : public DomBox {
public:
  D m_val;
  explicit BoxImpl(D v) : m_val(std::move(v)) {}

  std::unique_ptr<DomBox> clone() const override {
    return std::unique_ptr<DomBox>(new BoxImpl<D>(D(m_val)));
  }
  std::unique_ptr<DomBox> clone_via_move() const override {
    D tmp(m_val);
    D moved(std::move(tmp));
    return std::unique_ptr<DomBox>(new BoxImpl<D>(std::move(moved)));
  }
  std::unique_ptr<DomBox> clone_via_assign() const override {
    D tmp = m_val.make_top();
    tmp = m_val;
    D tmp2 = m_val.make_bottom();
    tmp2 = std::move(tmp);
    return std::unique_ptr<DomBox>(new BoxImpl<D>(std::move(tmp2)));
  }
  static const D &other_val(const DomBox *o) { return static_cast<const BoxImpl<D> *>(o)->m_val; }

  void apply(const Op &op, const DomBox *other) override {
    using namespace crab::domains;
    switch (op.kind) {
    case O_ASSIGN: m_val.assign(var(op.v0), to_lexp(op.e)); break;
    case O_WEAK_ASSIGN: m_val.weak_assign(var(op.v0), to_lexp(op.e)); break;
    case O_ARITH_VV: m_val.apply(arith_op(op.a), var(op.v0), var(op.v1), var(op.v2)); break;
    case O_ARITH_VK: m_val.apply(arith_op(op.a), var(op.v0), var(op.v1), z_number((int64_t)op.k)); break;
    case O_BITW_VV: m_val.apply(bitw_op(op.a), var(op.v0), var(op.v1), var(op.v2)); break;
    case O_BITW_VK: m_val.apply(bitw_op(op.a), var(op.v0), var(op.v1), z_number((int64_t)op.k)); break;
    case O_CAST: m_val.apply((int_conv_operation_t)op.a, var(op.v0), var(op.v1)); break;
    case O_SELECT: m_val.select(var(op.v0), to_lcst(op.c), to_lexp(op.e), to_lexp(op.e2)); break;
    case O_ASSUME: {
      lsys_t s;
      s += to_lcst(op.c);
      m_val += s;
      break;
    }
    case O_ASSUME2: {
      lsys_t s;
      s += to_lcst(op.c);
      s += to_lcst(op.c2);
      m_val += s;
      break;
    }
    case O_FORGET: m_val -= var(op.v0); break;
    case O_FORGET2: m_val.forget({var(op.v0), var(op.v1)}); break;
    case O_PROJECT: {
      std::vector<z_var> vs;
      for (int v : op.vars) vs.push_back(var(v));
      m_val.project(vs);
      break;
    }
    case O_RENAME: m_val.rename({var(op.v0)}, {var(op.v1)}); break;
    case O_EXPAND:
      if (op.a) m_val -= var(op.v1); // a=1: the target is forgotten first, so that it is a new variable
      m_val.expand(var(op.v0), var(op.v1));
      break;
    case O_NORMALIZE: m_val.normalize(); break;
    case O_MINIMIZE: m_val.minimize(); break;
    case O_JOIN: m_val = m_val | other_val(other); break;
    case O_JOIN_IP: m_val |= other_val(other); break;
    case O_MEET: m_val = m_val & other_val(other); break;
    case O_MEET_IP: m_val &= other_val(other); break;
    case O_WIDEN: m_val = m_val || other_val(other); break;
    case O_WIDEN_T: m_val = m_val.widening_thresholds(other_val(other), threshold_set(op.thresholds)); break;
    case O_NARROW: m_val = m_val && other_val(other); break;
    case O_COPY_FROM: m_val = other_val(other); break;
    case O_SET_TOP: m_val.set_to_top(); break;
    case O_SET_BOTTOM: m_val.set_to_bottom(); break;
    case O_MAKE_TOP: m_val = m_val.make_top(); break;
    case O_MAKE_BOTTOM: m_val = m_val.make_bottom(); break;
    case O_QUERY_ALL: {
      (void)m_val.is_bottom();
      (void)m_val.is_top();
      for (int v : {VX, VY, VZ}) {
        (void)m_val.at(var(v));
        (void)m_val[var(v)];
      }
      (void)m_val.to_linear_constraint_system();
      (void)m_val.to_disjunctive_linear_constraint_system();
      LinCst q;
      q.e.terms = {{1, VX}, {-1, VY}};
      q.kind = C_LEQ;
      (void)m_val.entails(to_lcst(q));
      crab::crab_string_os os;
      os << m_val;
      (void)(m_val <= m_val);
      break;
    }
    case O_BOOL_ASSIGN_CST: m_val.assign_bool_cst(var(op.v0), to_lcst(op.c)); break;
    case O_BOOL_ASSIGN_VAR: m_val.assign_bool_var(var(op.v0), var(op.v1), op.a != 0); break;
    case O_BOOL_APPLY: m_val.apply_binary_bool((bool_operation_t)op.a, var(op.v0), var(op.v1), var(op.v2)); break;
    case O_BOOL_ASSUME: m_val.assume_bool(var(op.v0), op.a != 0); break;
    case O_BOOL_SELECT: m_val.select_bool(var(op.v0), var(op.v1), var(op.v2), var(op.v3)); break;
    case O_BACK_ASSIGN: m_val.backward_assign(var(op.v0), to_lexp(op.e), other_val(other)); break;
    case O_BACK_ARITH_VK: m_val.backward_apply(arith_op(op.a), var(op.v0), var(op.v1), z_number((int64_t)op.k), other_val(other)); break;
    case O_BACK_ARITH_VV: m_val.backward_apply(arith_op(op.a), var(op.v0), var(op.v1), var(op.v2), other_val(other)); break;
    case O_ARR_INIT: m_val.array_init(var(op.v0), lexp_t(z_number((int64_t)op.k)), to_lexp(op.e), to_lexp(op.e2), to_lexp(op.e3)); break;
    case O_ARR_LOAD: m_val.array_load(var(op.v0), var(op.v1), lexp_t(z_number((int64_t)op.k)), to_lexp(op.e)); break;
    case O_ARR_STORE: m_val.array_store(var(op.v0), lexp_t(z_number((int64_t)op.k)), to_lexp(op.e), to_lexp(op.e2), op.a != 0); break;
    case O_ARR_STORE_RANGE: m_val.array_store_range(var(op.v0), lexp_t(z_number((int64_t)op.k)), to_lexp(op.e), to_lexp(op.e2), to_lexp(op.e3)); break;
    case O_ARR_ASSIGN: m_val.array_assign(var(op.v0), var(op.v1)); break;
    case O_REG_INIT: m_val.region_init(var(op.v0)); break;
    case O_REG_COPY: m_val.region_copy(var(op.v0), var(op.v1)); break;
    case O_REG_CAST: m_val.region_cast(var(op.v0), var(op.v1)); break;
    case O_REF_MAKE:
      m_val.ref_make(var(op.v0), var(op.v1), varcst_t(z_number((int64_t)op.k), crab::variable_type(crab::INT_TYPE, 32)),
                     crab::tag((std::size_t)op.a));
      break;
    case O_REF_FREE: m_val.ref_free(var(op.v0), var(op.v1)); break;
    case O_REF_LOAD: m_val.ref_load(var(op.v0), var(op.v1), var(op.v2)); break;
    case O_REF_STORE:
      if (op.v2 >= 0)
        m_val.ref_store(var(op.v0), var(op.v1), varcst_t(var(op.v2)));
      else
        m_val.ref_store(var(op.v0), var(op.v1), varcst_t(z_number((int64_t)op.k), crab::variable_type(crab::INT_TYPE, 32)));
      break;
    case O_REF_GEP: m_val.ref_gep(var(op.v0), var(op.v1), var(op.v2), var(op.v3), to_lexp(op.e)); break;
    case O_REF_ASSUME: {
      refcst_t rc = refcst_t::mk_true();
      z_number off((int64_t)op.k);
      switch (op.a) {
      case RC_NULL: rc = refcst_t::mk_null(var(op.v0)); break;
      case RC_NOT_NULL: rc = refcst_t::mk_not_null(var(op.v0)); break;
      case RC_EQ: rc = refcst_t::mk_eq(var(op.v0), var(op.v1), off); break;
      case RC_NEQ: rc = refcst_t::mk_not_eq(var(op.v0), var(op.v1), off); break;
      case RC_LT: rc = refcst_t::mk_lt(var(op.v0), var(op.v1), off); break;
      default: rc = refcst_t::mk_le(var(op.v0), var(op.v1), off); break;
      }
      m_val.ref_assume(rc);
      break;
    }
    case O_REF_TO_INT: m_val.ref_to_int(var(op.v0), var(op.v1), var(op.v2)); break;
    case O_INT_TO_REF: m_val.int_to_ref(var(op.v0), var(op.v1), var(op.v2)); break;
    case O_REF_SELECT: {
      crab::variable_type rty(crab::REF_TYPE);
      varcst_t r1 = op.v3 >= 0 ? varcst_t(var(op.v3)) : varcst_t::make_reference_null();
      varcst_t r2 = op.v4 >= 0 ? varcst_t(var(op.v4)) : varcst_t::make_reference_null();
      boost::optional<z_var> g1, g2;
      if (op.v3 >= 0) g1 = var(op.v1);
      if (op.v4 >= 0) g2 = var(op.v1);
      m_val.select_ref(var(op.v0), var(op.v1), var(op.v2), r1, g1, r2, g2);
      break;
    }
    default: throw std::runtime_error("dombox: unknown op kind");
    }
  }

  bool is_bottom() const override { return m_val.is_bottom(); }
  bool is_top() const override { return m_val.is_top(); }
  bool leq(const DomBox &o) const override { return m_val <= other_val(&o); }
  Itv at(int v) const override { return to_itv(m_val.at(var(v))); }
  Itv at_mut(int v) override { return to_itv(m_val[var(v)]); }
  std::vector<LinCst> csts() const override {
    std::vector<LinCst> out;
    lsys_t s = m_val.to_linear_constraint_system();
    for (auto &c : s) out.push_back(to_lincst(c));
    return out;
  }
  void dcsts(std::vector<std::vector<LinCst>> &out, bool &is_false) const override {
    dlsys_t d = m_val.to_disjunctive_linear_constraint_system();
    is_false = d.is_false();
    out.clear();
    if (is_false) return;
    for (auto it = d.begin(); it != d.end(); ++it) {
      std::vector<LinCst> conj;
      for (auto &c : *it) conj.push_back(to_lincst(c));
      out.push_back(conj);
    }
  }
  bool entails(const LinCst &c) const override { return m_val.entails(to_lcst(c)); }
  std::string print() const override {
    crab::crab_string_os os;
    os << m_val;
    return os.str();
  }
  std::string repr() const override { return ReprOf<D>::get(m_val); }
  std::string domain_name() const override { return m_val.domain_name(); }
  int is_null_ref(int ref) override {
    crab::domains::boolean_value b = m_val.is_null_ref(var(ref));
    if (b.is_bottom()) return N_BOTTOM;
    if (b.is_true()) return N_TRUE;
    if (b.is_false()) return N_FALSE;
    return N_TOP;
  }
  bool alloc_sites(int ref, std::vector<long> &out) override {
    std::vector<crab::allocation_site> as;
    bool r = m_val.get_allocation_sites(var(ref), as);
    out.clear();
    for (auto &a : as) out.push_back((long)a.index());
    return r;
  }
  bool tags(int rgn, int ref, std::vector<long> &out) override {
    std::vector<uint64_t> ts;
    bool r = m_val.get_tags(var(rgn), var(ref), ts);
    out.assign(ts.begin(), ts.end());
    return r;
  }
};

template <typename D> std::unique_ptr<DomBox> make_box(D v) {
  return std::unique_ptr<DomBox>(new BoxImpl<D>(std::move(v)));
}

typedef crab::domains::abstract_domain<z_var> wrapped_t;
typedef crab::domains::abstract_domain_ref<z_var> wrapped_ref_t;

// registers domain D under `name` with its three flavours
template <typename D>
DomEntry make_entry(const std::string &name, unsigned caps, std::vector<Config> quick,
                    std::vector<Config> thorough, const std::string &base = "") {
  DomEntry e;
  e.name = name;
  e.caps = caps;
  e.make_top = []() { D d; d.set_to_top(); return make_box<D>(std::move(d)); };
  e.make_top_wrapped = []() { D d; d.set_to_top(); return make_box<wrapped_t>(wrapped_t(std::move(d))); };
  e.make_top_ref = []() { D d; d.set_to_top(); return make_box<wrapped_ref_t>(wrapped_ref_t(std::move(d))); };
  e.configs_quick = quick.empty() ? std::vector<Config>{{"default", {}}} : quick;
  e.configs_thorough = thorough.empty() ? e.configs_quick : thorough;
  e.base = base;
  return e;
}

} // namespace vb
