// Membership oracle shared by the program-level checks: a concrete valuation s
// (restricted to the tracked variables) must be described by an abstract value
// through every exported view of it (M1 exported constraints, M2 disjunctive
// export, M3 at(), M4 non-bottom).
#pragma once
#include "common/progs.hpp"

namespace vm {
using namespace vb;
using vh::Val;

inline wrapped_t top_of(const DomEntry &e) {
  std::unique_ptr<DomBox> b = e.make_top_wrapped();
  return static_cast<BoxImpl<wrapped_t> *>(b.get())->m_val;
}

struct Obs {
  bool bottom = false;
  std::vector<int> track;
  std::vector<Itv> at;
  std::vector<LinCst> csts;
  std::vector<std::vector<LinCst>> dcsts;
  bool dfalse = false;
  std::string print;
};

inline Obs observe(const wrapped_t &inv, const std::vector<int> &track) {
  Obs o;
  o.track = track;
  BoxImpl<wrapped_t> box(inv);
  o.bottom = box.is_bottom();
  o.print = box.print();
  if (o.bottom) return o;
  for (int v : track) o.at.push_back(box.at(v));
  o.csts = box.csts();
  try {
    box.dcsts(o.dcsts, o.dfalse);
  } catch (std::runtime_error &) { // optional export, "not implemented" in some domains
    o.dcsts.clear();
    o.dfalse = false;
  }
  return o;
}

// a constraint is judged only if all its variables are tracked (other variables are not part of the state)
inline bool judged(const LinCst &c, const std::vector<int> &track) {
  if (c.big) return false;
  for (auto &t : c.e.terms)
    if (std::find(track.begin(), track.end(), t.second) == track.end()) return false;
  return true;
}

inline std::string member_clause(const Obs &o, const Val &s, std::string &extra) {
  if (o.bottom) return "M4:bottom-but-reached";
  for (auto &c : o.csts)
    if (judged(c, o.track) && !c.holds(s.v.data())) { extra = c.str(); return "M1:exported-constraint-false"; }
  if (o.dfalse) return "M2:disjunctive-system-false";
  if (!o.dcsts.empty()) {
    bool any = false;
    for (auto &conj : o.dcsts) {
      bool all = true;
      for (auto &c : conj)
        if (judged(c, o.track) && !c.holds(s.v.data())) { all = false; break; }
      if (all) { any = true; break; }
    }
    if (!any) return "M2:no-disjunct-holds";
  }
  for (size_t i = 0; i < o.track.size(); i++)
    if (!o.at[i].contains(s.v[o.track[i]])) { extra = std::string("at(") + var_name(o.track[i]) + ")=" + o.at[i].str(); return "M3:interval-misses-value"; }
  return "";
}

inline std::string vstr(const Val &v, const std::vector<int> &track) {
  std::string s = "{";
  for (int t : track) s += std::string(var_name(t)) + "=" + std::to_string(v.v[t]) + ",";
  return s + "}";
}
} // namespace vm
