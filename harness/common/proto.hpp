// Common plumbing for every exploration binary: argument parsing, slicing of
// the case space across worker processes, deadline, counters, samples,
// violation lines and a crash handler that names the case being executed.
//
// Output protocol (stdout, one record per line, TAB separated), consumed by
// /verif/check:
//   STAT <key> <int>      summed across slices
//   MAX  <key> <int>      max across slices
//   SAMPLE <text>         an actual explored case, written out
//   VIOL <core> <spec> <detail>   a violation; <core> identifies the finding,
//                         <spec> is accepted by --replay and re-runs only it
//   INCOMPLETE <what>     the deadline cut level <what>
//   DONE                  normal end of this slice
#pragma once
#include <csignal>
#include <cstdint>
#include <cstdio>
#include <cstdlib>
#include <cstring>
#include <ctime>
#include <map>
#include <set>
#include <sstream>
#include <string>
#include <unistd.h>
#include <vector>

namespace vp {

struct Args {
  std::string check;         // property id, e.g. C08
  std::string tier = "quick";
  unsigned slice = 0, nslices = 1;
  double deadline = 0;       // unix time; 0 = none
  std::string replay;        // non-empty: run only this case
  std::map<std::string, std::string> opt;
  bool thorough() const { return tier == "thorough"; }
};

inline Args &args() {
  static Args a;
  return a;
}

inline void parse_args(int argc, char **argv) {
  Args &a = args();
  for (int i = 1; i < argc; i++) {
    std::string s = argv[i];
    auto next = [&]() -> std::string {
      if (i + 1 >= argc) {
        fprintf(stderr, "missing value for %s\n", s.c_str());
        exit(2);
      }
      return argv[++i];
    };
    if (s == "--check")
      a.check = next();
    else if (s == "--tier")
      a.tier = next();
    else if (s == "--slice") {
      std::string v = next();
      if (sscanf(v.c_str(), "%u/%u", &a.slice, &a.nslices) != 2 ||
          a.nslices == 0 || a.slice >= a.nslices) {
        fprintf(stderr, "bad --slice %s\n", v.c_str());
        exit(2);
      }
    } else if (s == "--deadline")
      a.deadline = atof(next().c_str());
    else if (s == "--replay")
      a.replay = next();
    else if (s.rfind("--", 0) == 0) {
      std::string k = s.substr(2);
      a.opt[k] = next();
    } else {
      fprintf(stderr, "unknown argument %s\n", s.c_str());
      exit(2);
    }
  }
}

inline bool past_deadline() {
  const Args &a = args();
  if (a.deadline <= 0)
    return false;
  struct timespec ts;
  clock_gettime(CLOCK_REALTIME, &ts);
  return (double)ts.tv_sec + ts.tv_nsec * 1e-9 > a.deadline;
}

// Case index -> does this slice own it?
inline bool mine(uint64_t idx) {
  const Args &a = args();
  return (idx % a.nslices) == a.slice;
}

// ---- counters -------------------------------------------------------------
inline std::map<std::string, long long> &stats() {
  static std::map<std::string, long long> s;
  return s;
}
inline std::map<std::string, long long> &maxes() {
  static std::map<std::string, long long> s;
  return s;
}
inline void stat(const std::string &k, long long v = 1) { stats()[k] += v; }
inline void statmax(const std::string &k, long long v) {
  auto &m = maxes();
  auto it = m.find(k);
  if (it == m.end() || it->second < v)
    m[k] = v;
}

inline std::string sanitize(std::string s) {
  for (auto &c : s)
    if (c == '\t' || c == '\n' || c == '\r')
      c = ' ';
  return s;
}

// ---- samples ----------------------------------------------------------------
inline int &sample_budget() {
  static int b = 6;
  return b;
}
inline void sample(const std::string &s) {
  if (sample_budget() > 0) {
    --sample_budget();
    printf("SAMPLE\t%s\n", sanitize(s).c_str());
  }
}
inline bool want_sample() { return sample_budget() > 0; }

// ---- violations -------------------------------------------------------------
inline long long &nviol() {
  static long long n = 0;
  return n;
}
inline std::map<std::string, int> &viol_cores() {
  static std::map<std::string, int> s;
  return s;
}
// at most `per_core` full records per distinct core are printed; all are counted
inline void viol(const std::string &core, const std::string &spec,
                 const std::string &detail, int per_core = 2) {
  ++nviol();
  int &n = viol_cores()[core];
  if (n++ < per_core) {
    printf("VIOL\t%s\t%s\t%s\n", sanitize(core).c_str(), sanitize(spec).c_str(),
           sanitize(detail).c_str());
    fflush(stdout);
  }
}

// ---- current case + crash handler ----------------------------------------
inline char *cur_case_buf() {
  static char buf[4096];
  return buf;
}
inline void set_case(const std::string &spec) {
  strncpy(cur_case_buf(), spec.c_str(), 4095);
  cur_case_buf()[4095] = 0;
}
inline void crash_handler(int sig) {
  // async-signal-safe: write(2) only
  const char *p = "VIOL\tcrash:signal\t";
  ssize_t r = write(1, p, strlen(p));
  r = write(1, cur_case_buf(), strlen(cur_case_buf()));
  char tail[64];
  int n = snprintf(tail, sizeof tail, "\tsignal %d\n", sig);
  r = write(1, tail, n);
  (void)r;
  _exit(3);
}
inline void install_crash_handler() {
  // alternate stack: a stack overflow (unbounded recursion in the code under test) must still be reported
  static char altstack[1 << 16];
  stack_t ss;
  ss.ss_sp = altstack;
  ss.ss_size = sizeof altstack;
  ss.ss_flags = 0;
  sigaltstack(&ss, nullptr);
  struct sigaction sa;
  memset(&sa, 0, sizeof sa);
  sa.sa_handler = crash_handler;
  sa.sa_flags = SA_ONSTACK;
  sigemptyset(&sa.sa_mask);
  sigaction(SIGSEGV, &sa, nullptr);
  sigaction(SIGBUS, &sa, nullptr);
  signal(SIGABRT, crash_handler);
  signal(SIGFPE, crash_handler);
  signal(SIGILL, crash_handler);
  signal(SIGTERM, crash_handler);
  signal(SIGXCPU, crash_handler);
}

inline void incomplete(const std::string &what) {
  printf("INCOMPLETE\t%s\n", sanitize(what).c_str());
}

inline void finish() {
  for (auto &kv : stats())
    printf("STAT\t%s\t%lld\n", kv.first.c_str(), kv.second);
  for (auto &kv : maxes())
    printf("MAX\t%s\t%lld\n", kv.first.c_str(), kv.second);
  printf("STAT\tviolations_total\t%lld\n", nviol());
  printf("DONE\n");
  fflush(stdout);
}

// tiny helpers
inline std::vector<std::string> split(const std::string &s, char sep) {
  std::vector<std::string> out;
  std::string cur;
  for (char c : s) {
    if (c == sep) {
      out.push_back(cur);
      cur.clear();
    } else
      cur += c;
  }
  out.push_back(cur);
  return out;
}
template <typename T> inline std::string str(const T &x) {
  std::ostringstream os;
  os << x;
  return os.str();
}

// distinct counting through 64-bit hashes
inline uint64_t fnv(const std::string &s) {
  uint64_t h = 1469598103934665603ULL;
  for (unsigned char c : s) {
    h ^= c;
    h *= 1099511628211ULL;
  }
  return h;
}

} // namespace vp
