// Variable table, threshold sets, domain registry and plain-data printing.
#include "common/dombox_impl.hpp"

namespace vb {

crab::cfg_impl::variable_factory_t &vfac() {
  static crab::cfg_impl::variable_factory_t f;
  return f;
}

static std::vector<z_var> &table() {
  static std::vector<z_var> t;
  if (t.empty()) {
    auto mk = [&](int idx, crab::variable_type_kind k, unsigned w) {
      return z_var(vfac()[var_name(idx)], k, w);
    };
    for (int i = 0; i < NVARS; i++) {
      switch (i) {
      case VB1: case VB2: case VB3: t.push_back(mk(i, crab::BOOL_TYPE, 1)); break;
      case VS8: t.push_back(mk(i, crab::INT_TYPE, 8)); break;
      case VL64: t.push_back(mk(i, crab::INT_TYPE, 64)); break;
      case VA: case VA2: case VS: t.push_back(mk(i, crab::ARR_INT_TYPE, 0)); break;
      case VR1: case VR2: t.push_back(mk(i, crab::REG_INT_TYPE, 32)); break;
      case VRR: t.push_back(mk(i, crab::REG_REF_TYPE, 0)); break;
      case VRB: t.push_back(mk(i, crab::REG_BOOL_TYPE, 1)); break;
      case VP: case VQ: case VR: t.push_back(mk(i, crab::REF_TYPE, 32)); break;
      default: t.push_back(mk(i, crab::INT_TYPE, 32)); break;
      }
    }
  }
  return t;
}
const z_var &var(int idx) { return table()[idx]; }
int var_index(const z_var &v) {
  auto &t = table();
  for (int i = 0; i < (int)t.size(); i++)
    if (t[i].name() == v.name()) return i;
  return -1;
}

const crab::thresholds<z_number> &threshold_set(int idx) {
  static std::vector<crab::thresholds<z_number>> sets;
  if (sets.empty()) {
    typedef ikos::bound<z_number> b_t;
    sets.emplace_back(20); // defaults only: -oo, 0, +oo
    sets.emplace_back(20);
    sets[1].add(b_t(z_number(0)));
    sets.emplace_back(20);
    for (int k : {-1, 0, 5, 100}) sets[2].add(b_t(z_number(k)));
    sets.emplace_back(0); // size limit 0: nothing can be added
  }
  return sets[idx % sets.size()];
}

std::vector<DomEntry> &registry() {
  static std::vector<DomEntry> r;
  return r;
}
const DomEntry *find_domain(const std::string &name) {
  for (auto &e : registry())
    if (e.name == name) return &e;
  return nullptr;
}
// every parameter is reset to its default first, so a configuration is a
// complete, reproducible setting of the global parameter object
void apply_config(const Config &c) {
  crab::domains::crab_domain_params_man::get() = crab::domains::crab_domain_params();
  for (auto &kv : c.params) crab::domains::crab_domain_params_man::get().set_param(kv.first, kv.second);
}

void quiet_crab() { crab::CrabEnableWarningMsg(false); }

std::string Itv::str() const {
  if (bottom) return "_|_";
  return "[" + (lb_inf ? std::string("-oo") : std::to_string(lb)) + "," +
         (ub_inf ? std::string("+oo") : std::to_string(ub)) + "]";
}
std::string LinExp::str() const {
  std::string s;
  for (auto &t : terms) {
    s += (t.first >= 0 && !s.empty() ? "+" : "") + std::to_string(t.first) + "*" +
         (t.second >= 0 ? var_name(t.second) : "?");
  }
  if (cst != 0 || s.empty()) s += (cst >= 0 && !s.empty() ? "+" : "") + std::to_string(cst);
  return s;
}
std::string LinCst::str() const {
  static const char *k[] = {"=", "!=", "<=", "<"};
  return e.str() + " " + k[kind] + " 0" + (big ? " (not evaluable)" : "");
}

} // namespace vb
