// Operation alphabets over DomBox values and their concrete semantics on
// witness valuations (DESIGN.md §1.3, §2 C03). Shared by the history engines.
#pragma once
#include "common/dombox.hpp"
#include "common/proto.hpp"

#include <algorithm>
#include <array>
#include <set>

namespace vh {
using namespace vb;

struct Val {
  std::array<long, NVARS> v;
  bool operator<(const Val &o) const { return v < o.v; }
  bool operator==(const Val &o) const { return v == o.v; }
};
typedef std::vector<Val> WSet;

const long MAGCAP = 1000000;
const size_t WCAP = 2048;

inline void normalize_wset(WSet &w) {
  std::sort(w.begin(), w.end());
  w.erase(std::unique(w.begin(), w.end()), w.end());
  if (w.size() > WCAP) { // deterministic stride truncation (still a subset of gamma)
    WSet r;
    r.reserve(WCAP);
    for (size_t i = 0; i < WCAP; i++) r.push_back(w[i * w.size() / WCAP]);
    w.swap(r);
  }
}

// ---- concrete scalar semantics ---------------------------------------------
inline bool c_arith(int op, long a, long b, long &r) {
  switch (op) {
  case 0: r = a + b; return true;
  case 1: r = a - b; return true;
  case 2: r = a * b; return true;
  case 3: if (b == 0) return false; r = a / b; return true;            // sdiv: truncation
  case 4: if (a < 0 || b <= 0) return false; r = a / b; return true;    // udiv
  case 5: if (b == 0) return false; r = a % b; return true;            // srem: sign of dividend
  case 6: if (a < 0 || b <= 0) return false; r = a % b; return true;    // urem
  }
  return false;
}
inline bool c_bitw(int op, long a, long b, long &r) {
  switch (op) {
  case 0: r = a & b; return true;
  case 1: r = a | b; return true;
  case 2: r = a ^ b; return true;
  case 3: if (b < 0 || b > 16) return false; r = a * (1L << b); return true;
  case 4: if (a < 0 || b < 0 || b > 16) return false; r = a >> b; return true; // lshr
  case 5: {
    if (b < 0 || b > 16) return false;
    long d = 1L << b, q = a / d;
    if ((a % d) != 0 && a < 0) q -= 1; // floor
    r = q;
    return true;
  }
  }
  return false;
}

// values a forgotten variable takes in the witnesses
inline std::vector<long> forget_values(long old) {
  std::vector<long> r = {old, 0, -7, 9};
  std::sort(r.begin(), r.end());
  r.erase(std::unique(r.begin(), r.end()), r.end());
  return r;
}

// concrete image of one valuation under a unary (non-lattice) operation
inline void concrete_step(const Op &op, const Val &in, std::vector<Val> &out) {
  Val s = in;
  long r;
  auto ok = [&](const Val &x) {
    for (long q : x.v)
      if (q > MAGCAP || q < -MAGCAP) return false;
    return true;
  };
  auto push = [&](const Val &x) {
    if (ok(x)) out.push_back(x);
  };
  switch (op.kind) {
  case O_ASSIGN:
    s.v[op.v0] = op.e.eval(in.v.data());
    push(s);
    break;
  case O_ARITH_VV:
    if (c_arith(op.a, in.v[op.v1], in.v[op.v2], r)) { s.v[op.v0] = r; push(s); }
    break;
  case O_ARITH_VK:
    if (c_arith(op.a, in.v[op.v1], op.k, r)) { s.v[op.v0] = r; push(s); }
    break;
  case O_BITW_VV:
    if (c_bitw(op.a, in.v[op.v1], in.v[op.v2], r)) { s.v[op.v0] = r; push(s); }
    break;
  case O_BITW_VK:
    if (c_bitw(op.a, in.v[op.v1], op.k, r)) { s.v[op.v0] = r; push(s); }
    break;
  case O_SELECT:
    s.v[op.v0] = op.c.holds(in.v.data()) ? op.e.eval(in.v.data()) : op.e2.eval(in.v.data());
    push(s);
    break;
  case O_ASSUME:
    if (op.c.holds(in.v.data())) push(s);
    break;
  case O_ASSUME2:
    if (op.c.holds(in.v.data()) && op.c2.holds(in.v.data())) push(s);
    break;
  case O_FORGET:
    if (op.v0 == VB1 || op.v0 == VB2 || op.v0 == VB3) {
      for (long q : {0L, 1L}) { s.v[op.v0] = q; push(s); }
    } else
      for (long q : forget_values(in.v[op.v0])) { s.v[op.v0] = q; push(s); }
    break;
  case O_FORGET2:
    for (long q : forget_values(in.v[op.v0]))
      for (long q2 : forget_values(in.v[op.v1])) { s.v[op.v0] = q; s.v[op.v1] = q2; push(s); }
    break;
  case O_PROJECT: {
    std::vector<Val> cur = {in};
    for (int v : {VX, VY, VZ, VW}) {
      if (std::find(op.vars.begin(), op.vars.end(), v) != op.vars.end()) continue;
      std::vector<Val> nxt;
      for (auto &c : cur)
        for (long q : {c.v[v], (long)9}) { Val t = c; t.v[v] = q; nxt.push_back(t); }
      cur.swap(nxt);
    }
    for (auto &c : cur) push(c);
    break;
  }
  case O_RENAME:
    s.v[op.v1] = in.v[op.v0];
    for (long q : forget_values(in.v[op.v0])) { s.v[op.v0] = q; push(s); }
    break;
  case O_EXPAND:
    s.v[op.v1] = in.v[op.v0];
    push(s);
    break;
  case O_NORMALIZE: case O_MINIMIZE: case O_QUERY_ALL:
    push(s);
    break;
  case O_BOOL_ASSIGN_CST:
    s.v[op.v0] = op.c.holds(in.v.data()) ? 1 : 0;
    push(s);
    break;
  case O_CAST: { // only the conversions between an integer and a boolean are part of the alphabet
    bool dst_bool = op.v0 == VB1 || op.v0 == VB2 || op.v0 == VB3, src_bool = op.v1 == VB1 || op.v1 == VB2 || op.v1 == VB3;
    if (dst_bool && !src_bool && op.a == 0) { s.v[op.v0] = in.v[op.v1] != 0 ? 1 : 0; push(s); } // int -> bool: non-zero is true
    else if (!dst_bool && src_bool && op.a == 2) { s.v[op.v0] = in.v[op.v1]; push(s); }         // zext bool -> int: 0 / 1
    break;
  }
  case O_BOOL_ASSIGN_VAR:
    s.v[op.v0] = op.a ? 1 - in.v[op.v1] : in.v[op.v1];
    push(s);
    break;
  case O_BOOL_APPLY: {
    long a = in.v[op.v1], b = in.v[op.v2];
    s.v[op.v0] = op.a == 0 ? (a & b) : op.a == 1 ? (a | b) : (a ^ b);
    push(s);
    break;
  }
  case O_BOOL_ASSUME:
    if ((in.v[op.v0] != 0) != (op.a != 0)) push(s);
    break;
  case O_BOOL_SELECT:
    s.v[op.v0] = in.v[op.v1] ? in.v[op.v2] : in.v[op.v3];
    push(s);
    break;
  default:
    break; // lattice operations are handled by the engine
  }
}

inline bool is_binary(int kind) {
  return kind == O_JOIN || kind == O_JOIN_IP || kind == O_MEET || kind == O_MEET_IP || kind == O_WIDEN ||
         kind == O_WIDEN_T || kind == O_NARROW || kind == O_COPY_FROM;
}

// ---- alphabet -----------------------------------------------------------------
struct HOp {
  Op op;
  int tier = 0;          // 0 core, 1 extended
  bool fresh_w = false;  // needs w unused
  bool engine = false;   // handled by the engine itself (swap, copy r1:=r0)
  int engine_code = 0;
  bool boolean = false;  // needs CAP_BOOL
  bool focus = false;    // member of the boolean-focus alphabet (deeper phase for the domains with CAP_BOOL)
  bool rel4 = false;     // member of the four-variable relational alphabet (deeper phase for the relational domains)
  bool disabled = false; // excluded from the current phase (indices stay stable for replay)
};

inline LinExp lin(std::vector<std::pair<long, int>> t, long c = 0) {
  LinExp e;
  e.terms = t;
  e.cst = c;
  return e;
}
inline LinCst cst(std::vector<std::pair<long, int>> t, long c, int kind) {
  LinCst r;
  r.e = lin(t, c);
  r.kind = kind;
  return r;
}

enum { ENG_SWAP = 1, ENG_COPY_TO_R1 = 2 };

inline std::vector<HOp> build_alphabet(unsigned caps, bool extended) {
  std::vector<HOp> A;
  auto add = [&](int tier, Op o, const std::string &name) {
    HOp h;
    h.op = o;
    h.op.name = name;
    h.tier = tier;
    A.push_back(h);
    return &A.back();
  };
  auto assign = [&](int tier, int x, LinExp e, const std::string &n) {
    Op o; o.kind = O_ASSIGN; o.v0 = x; o.e = e; add(tier, o, n);
  };
  auto arith_vv = [&](int tier, int code, int x, int y, int z, const std::string &n) {
    Op o; o.kind = O_ARITH_VV; o.a = code; o.v0 = x; o.v1 = y; o.v2 = z; add(tier, o, n);
  };
  auto arith_vk = [&](int tier, int code, int x, int y, long k, const std::string &n) {
    Op o; o.kind = O_ARITH_VK; o.a = code; o.v0 = x; o.v1 = y; o.k = k; add(tier, o, n);
  };
  auto bitw_vv = [&](int tier, int code, int x, int y, int z, const std::string &n) {
    Op o; o.kind = O_BITW_VV; o.a = code; o.v0 = x; o.v1 = y; o.v2 = z; add(tier, o, n);
  };
  auto bitw_vk = [&](int tier, int code, int x, int y, long k, const std::string &n) {
    Op o; o.kind = O_BITW_VK; o.a = code; o.v0 = x; o.v1 = y; o.k = k; add(tier, o, n);
  };
  auto assume = [&](int tier, LinCst c, const std::string &n) {
    Op o; o.kind = O_ASSUME; o.c = c; add(tier, o, n);
  };
  auto simple = [&](int tier, int kind, const std::string &n) {
    Op o; o.kind = kind; return add(tier, o, n);
  };
  // assignments
  assign(0, VX, lin({}, 0), "x:=0");
  assign(0, VX, lin({}, 1), "x:=1");
  assign(1, VX, lin({}, -1), "x:=-1");
  assign(1, VX, lin({}, 3), "x:=3");
  assign(0, VY, lin({}, 2), "y:=2");
  assign(1, VY, lin({}, -1), "y:=-1");
  assign(1, VZ, lin({}, 1), "z:=1");
  assign(0, VX, lin({{1, VY}}), "x:=y");
  assign(0, VY, lin({{1, VX}}), "y:=x");
  assign(1, VZ, lin({{1, VX}}), "z:=x");
  assign(0, VX, lin({{1, VX}}, 1), "x:=x+1");
  assign(1, VX, lin({{1, VX}}, -1), "x:=x-1");
  assign(1, VY, lin({{1, VY}}, 1), "y:=y+1");
  assign(0, VX, lin({{1, VY}, {1, VZ}}), "x:=y+z");
  assign(0, VX, lin({{1, VX}, {1, VY}}), "x:=x+y");
  assign(1, VX, lin({{2, VY}, {-1, VZ}}, 1), "x:=2y-z+1");
  assign(1, VX, lin({{-1, VY}}), "x:=-y");
  assign(0, VX, lin({{2, VX}}), "x:=2x");
  assign(1, VX, lin({{0, VY}, {1, VZ}}, 1), "x:=0*y+z+1");
  // arithmetic
  arith_vv(0, 2, VX, VY, VZ, "x:=y*z");
  arith_vv(1, 2, VX, VX, VY, "x:=x*y");
  arith_vv(0, 3, VX, VY, VZ, "x:=y/z");
  arith_vv(1, 5, VX, VY, VZ, "x:=y%z");
  arith_vv(1, 1, VX, VX, VY, "x:=x-y");
  arith_vv(1, 4, VX, VY, VZ, "x:=y udiv z");
  arith_vv(1, 6, VX, VY, VZ, "x:=y urem z");
  arith_vv(1, 3, VX, VX, VY, "x:=x/y");
  arith_vk(0, 2, VX, VY, 2, "x:=y*2");
  arith_vk(0, 2, VX, VX, 2, "x:=x*2");
  arith_vk(1, 2, VX, VY, -3, "x:=y*-3");
  arith_vk(0, 3, VX, VY, 2, "x:=y/2");
  arith_vk(1, 3, VX, VY, -3, "x:=y/-3");
  arith_vk(1, 3, VX, VX, 2, "x:=x/2");
  arith_vk(0, 5, VX, VY, 2, "x:=y%2");
  arith_vk(1, 5, VX, VY, -3, "x:=y%-3");
  arith_vk(1, 4, VX, VY, 2, "x:=y udiv 2");
  arith_vk(1, 6, VX, VY, 2, "x:=y urem 2");
  arith_vk(1, 0, VX, VY, 0, "x:=y+0");
  arith_vk(1, 1, VX, VX, 1, "x:=x-1 (apply)");
  // bitwise
  bitw_vv(1, 0, VX, VY, VZ, "x:=y&z");
  bitw_vv(1, 1, VX, VY, VZ, "x:=y|z");
  bitw_vv(1, 2, VX, VY, VZ, "x:=y^z");
  bitw_vv(1, 3, VX, VY, VZ, "x:=y<<z");
  bitw_vk(0, 0, VX, VY, 1, "x:=y&1");
  bitw_vk(1, 1, VX, VY, 1, "x:=y|1");
  bitw_vk(1, 2, VX, VY, -1, "x:=y^-1");
  bitw_vk(1, 3, VX, VY, 1, "x:=y<<1");
  bitw_vk(0, 5, VX, VY, 1, "x:=y>>1");
  bitw_vk(1, 4, VX, VY, 1, "x:=y lshr 1");
  bitw_vk(1, 5, VX, VX, 1, "x:=x>>1");
  // select
  {
    Op o; o.kind = O_SELECT; o.v0 = VX; o.c = cst({{1, VY}}, 0, C_LEQ); o.e = lin({{1, VZ}}); o.e2 = lin({}, 1);
    add(1, o, "x:=ite(y<=0,z,1)");
    Op p; p.kind = O_SELECT; p.v0 = VX; p.c = cst({{1, VY}, {-1, VZ}}, 0, C_EQ); p.e = lin({}, 0); p.e2 = lin({{1, VY}});
    add(1, p, "x:=ite(y==z,0,y)");
  }
  // assume
  assume(0, cst({{1, VX}}, 0, C_LEQ), "assume(x<=0)");
  assume(0, cst({{-1, VX}}, 0, C_LEQ), "assume(x>=0)");
  assume(0, cst({{1, VY}}, 0, C_LEQ), "assume(y<=0)");
  assume(0, cst({{-1, VX}}, 1, C_LEQ), "assume(x>=1)");
  assume(1, cst({{1, VX}}, 0, C_LT), "assume(x<0)");
  assume(0, cst({{1, VX}}, 0, C_EQ), "assume(x==0)");
  assume(0, cst({{1, VX}}, 0, C_DISEQ), "assume(x!=0)");
  assume(1, cst({{1, VX}}, -1, C_DISEQ), "assume(x!=1)");
  assume(0, cst({{1, VX}, {-1, VY}}, 0, C_LEQ), "assume(x<=y)");
  assume(0, cst({{1, VX}, {-1, VY}}, 0, C_LT), "assume(x<y)");
  assume(0, cst({{1, VX}, {-1, VY}}, 0, C_EQ), "assume(x==y)");
  assume(0, cst({{1, VX}, {-1, VY}}, 0, C_DISEQ), "assume(x!=y)");
  assume(1, cst({{1, VY}, {-1, VZ}}, 1, C_LEQ), "assume(y-z<=-1)");
  assume(0, cst({{1, VX}, {1, VY}}, -1, C_LEQ), "assume(x+y<=1)");
  assume(1, cst({{1, VX}, {1, VY}}, 0, C_EQ), "assume(x+y==0)");
  assume(1, cst({{-1, VX}, {-1, VY}}, 1, C_LEQ), "assume(x+y>=1)");
  assume(1, cst({{-1, VX}, {-1, VY}}, -1, C_LEQ), "assume(x+y>=-1)");
  assume(1, cst({{2, VX}, {-3, VY}}, -1, C_LEQ), "assume(2x-3y<=1)");
  assume(1, cst({{2, VX}, {-3, VY}}, 0, C_EQ), "assume(2x-3y==0)");
  assume(1, cst({{-1, VX}, {2, VY}}, 0, C_DISEQ), "assume(2y-x!=0)");
  assume(0, cst({{-1, VY}}, -1, C_LEQ), "assume(y>=-1)");
  assume(0, cst({{1, VY}}, -1, C_LEQ), "assume(y<=1)");
  assume(1, cst({{1, VZ}}, -1, C_EQ), "assume(z==1)");
  assume(1, cst({{0, VX}, {-1, VY}}, 1, C_LEQ), "assume(0*x-y<=-1)");
  assume(1, cst({{0, VX}, {1, VY}, {-1, VZ}}, 0, C_LEQ), "assume(0*x+y-z<=0)");
  assume(1, cst({{1, VX}}, -2147483648L, C_LEQ), "assume(x<=2^31)");
  assume(1, cst({{1, VX}, {-1, VY}, {1, VZ}}, 0, C_LEQ), "assume(x-y+z<=0)");
  {
    Op o; o.kind = O_ASSUME2; o.c = cst({{-1, VX}}, 0, C_LEQ); o.c2 = cst({{1, VX}}, -1, C_LEQ);
    add(1, o, "assume{x>=0,x<=1}");
    Op p; p.kind = O_ASSUME2; p.c = cst({{1, VX}, {-1, VY}}, 0, C_LEQ); p.c2 = cst({{1, VY}, {-1, VX}}, 0, C_LEQ);
    add(1, p, "assume{x<=y,y<=x}");
  }
  // forget / project / rename / expand
  { Op o; o.kind = O_FORGET; o.v0 = VX; add(0, o, "forget(x)"); }
  { Op o; o.kind = O_FORGET; o.v0 = VY; add(0, o, "forget(y)"); }
  { Op o; o.kind = O_FORGET2; o.v0 = VX; o.v1 = VY; add(1, o, "forget{x,y}"); }
  { Op o; o.kind = O_PROJECT; o.vars = {VX, VY}; add(1, o, "project{x,y}"); }
  { Op o; o.kind = O_PROJECT; o.vars = {VY}; add(1, o, "project{y}"); }
  { Op o; o.kind = O_RENAME; o.v0 = VX; o.v1 = VW; add(1, o, "rename(x->w)")->fresh_w = true; }
  { Op o; o.kind = O_EXPAND; o.v0 = VX; o.v1 = VW; add(1, o, "expand(x->w)")->fresh_w = true; }
  simple(0, O_NORMALIZE, "normalize");
  simple(1, O_MINIMIZE, "minimize");
  simple(1, O_QUERY_ALL, "query_all");
  // lattice
  simple(0, O_JOIN, "r0:=r0|r1");
  simple(1, O_JOIN_IP, "r0|=r1");
  simple(0, O_MEET, "r0:=r0&r1");
  simple(1, O_MEET_IP, "r0&=r1");
  simple(0, O_WIDEN, "r0:=r0||r1");
  { Op o; o.kind = O_WIDEN_T; o.thresholds = 2; add(1, o, "r0:=widening_thresholds(r0,r1,{-1,0,5,100})"); }
  simple(1, O_NARROW, "r0:=r0&&r1");
  simple(0, O_COPY_FROM, "r0:=r1");
  { HOp *h = simple(0, O_COPY_FROM, "r1:=r0"); h->engine = true; h->engine_code = ENG_COPY_TO_R1; }
  { HOp *h = simple(0, O_COPY_FROM, "swap"); h->engine = true; h->engine_code = ENG_SWAP; }
  simple(1, O_SET_TOP, "set_to_top");
  simple(1, O_SET_BOTTOM, "set_to_bottom");
  simple(1, O_MAKE_TOP, "r0:=make_top");
  // booleans
  if (caps & CAP_BOOL) {
    auto badd = [&](int tier, Op o, const std::string &n) { add(tier, o, n)->boolean = true; };
    { Op o; o.kind = O_BOOL_ASSIGN_CST; o.v0 = VB1; o.c = cst({{1, VX}}, 0, C_LEQ); badd(0, o, "b1:=(x<=0)"); }
    { Op o; o.kind = O_BOOL_ASSIGN_CST; o.v0 = VB2; o.c = cst({{1, VX}, {-1, VY}}, 0, C_EQ); badd(1, o, "b2:=(x==y)"); }
    { Op o; o.kind = O_BOOL_ASSIGN_CST; o.v0 = VB2; o.c = cst({{1, VY}}, -1, C_LT); badd(0, o, "b2:=(y<1)"); }
    { Op o; o.kind = O_BOOL_ASSIGN_CST; o.v0 = VB1; o.c = cst({{1, VX}}, 0, C_DISEQ); badd(1, o, "b1:=(x!=0)"); }
    { Op o; o.kind = O_BOOL_ASSIGN_VAR; o.v0 = VB1; o.v1 = VB2; o.a = 0; badd(1, o, "b1:=b2"); }
    { Op o; o.kind = O_BOOL_ASSIGN_VAR; o.v0 = VB1; o.v1 = VB2; o.a = 1; badd(0, o, "b1:=not b2"); }
    { Op o; o.kind = O_BOOL_APPLY; o.a = 0; o.v0 = VB3; o.v1 = VB1; o.v2 = VB2; badd(0, o, "b3:=b1&b2"); }
    { Op o; o.kind = O_BOOL_APPLY; o.a = 1; o.v0 = VB3; o.v1 = VB1; o.v2 = VB2; badd(0, o, "b3:=b1|b2"); }
    { Op o; o.kind = O_BOOL_APPLY; o.a = 2; o.v0 = VB3; o.v1 = VB1; o.v2 = VB2; badd(1, o, "b3:=b1^b2"); }
    { Op o; o.kind = O_BOOL_ASSUME; o.v0 = VB1; o.a = 0; badd(0, o, "assume(b1)"); }
    { Op o; o.kind = O_BOOL_ASSUME; o.v0 = VB1; o.a = 1; badd(0, o, "assume(not b1)"); }
    { Op o; o.kind = O_BOOL_ASSUME; o.v0 = VB3; o.a = 0; badd(0, o, "assume(b3)"); }
    { Op o; o.kind = O_BOOL_ASSUME; o.v0 = VB3; o.a = 1; badd(1, o, "assume(not b3)"); }
    { Op o; o.kind = O_BOOL_SELECT; o.v0 = VB3; o.v1 = VB1; o.v2 = VB2; o.v3 = VB1; badd(1, o, "b3:=ite(b1,b2,b1)"); }
    { Op o; o.kind = O_FORGET; o.v0 = VB1; badd(1, o, "forget(b1)"); }
    { Op o; o.kind = O_BOOL_ASSIGN_CST; o.v0 = VB2; o.c = cst({}, 1, C_LEQ); badd(1, o, "b2:=false"); }
    { Op o; o.kind = O_BOOL_ASSIGN_CST; o.v0 = VB2; o.c = cst({}, 0, C_LEQ); badd(1, o, "b2:=true"); }
    { Op o; o.kind = O_BOOL_SELECT; o.v0 = VB3; o.v1 = VB2; o.v2 = VB1; o.v3 = VB2; badd(1, o, "b3:=ite(b2,b1,b2)"); }
    { Op o; o.kind = O_BOOL_SELECT; o.v0 = VB3; o.v1 = VB3; o.v2 = VB1; o.v3 = VB2; badd(1, o, "b3:=ite(b3,b1,b2)"); }
    { Op o; o.kind = O_CAST; o.a = 0; o.v0 = VB1; o.v1 = VX; badd(1, o, "b1:=trunc(x)"); }
    { Op o; o.kind = O_CAST; o.a = 2; o.v0 = VX; o.v1 = VB1; badd(1, o, "x:=zext(b1)"); }
    { Op o; o.kind = O_BOOL_ASSIGN_VAR; o.v0 = VB2; o.v1 = VB3; o.a = 1; badd(1, o, "b2:=not b3"); }
    { Op o; o.kind = O_BOOL_ASSUME; o.v0 = VB2; o.a = 0; badd(1, o, "assume(b2)"); }
    { Op o; o.kind = O_EXPAND; o.v0 = VX; o.v1 = VY; o.a = 1; badd(1, o, "forget(y);expand(x->y)"); } // the target is forgotten first: it is then a new variable
    // boolean-focus alphabet: every boolean operation plus the numerical operations that interact with the recorded facts
    const char *focus_names[] = {"x:=0", "x:=x+1", "y:=2", "forget(x)", "forget(y)", "assume(x<=0)", "assume(x>=1)", "expand(x->w)", "r1:=r0", "r0:=r0|r1"};
    for (auto &h : A) {
      if (h.boolean) h.focus = true;
      for (auto n : focus_names)
        if (h.op.name == n) h.focus = true;
    }
  }
  // four-variable relational alphabet (tier 2: only used by its own phase, where w is an ordinary variable)
  {
    size_t first_new = A.size();
    assume(2, cst({{1, VY}, {-1, VZ}}, 0, C_LEQ), "assume(y<=z)");
    assume(2, cst({{1, VZ}, {-1, VW}}, 0, C_LEQ), "assume(z<=w)");
    assume(2, cst({{1, VW}, {-1, VX}}, -1, C_LEQ), "assume(w-x<=1)");
    assume(2, cst({{1, VY}, {-1, VW}}, -1, C_LEQ), "assume(y-w<=1)");
    assume(2, cst({{-1, VW}}, 1, C_LEQ), "assume(w>=1)");
    assume(2, cst({{1, VZ}, {-1, VX}}, -2, C_LEQ), "assume(z-x<=2)");
    assign(2, VW, lin({{1, VZ}}, 1), "w:=z+1");
    assign(2, VZ, lin({{1, VW}}), "z:=w");
    { Op o; o.kind = O_FORGET; o.v0 = VW; add(2, o, "forget(w)"); }
    { Op o; o.kind = O_FORGET; o.v0 = VZ; add(2, o, "forget(z)"); }
    for (size_t i = first_new; i < A.size(); i++) A[i].rel4 = true;
    const char *names[] = {"assume(x<=y)", "assume(x<=0)", "x:=y", "x:=x+1", "forget(y)", "r0:=r0|r1", "r0:=r0&r1", "r0:=r0||r1", "r1:=r0", "swap"};
    for (auto &h : A)
      for (auto n : names)
        if (h.op.name == n) h.rel4 = true;
  }
  if (!extended) {
    std::vector<HOp> core;
    for (auto &h : A)
      if (h.tier == 0) core.push_back(h);
    return core;
  }
  return A;
}

} // namespace vh
