// DomBox: a plain-data, type-erased view of one crab abstract-domain value, so
// that the exploration engines compile once and run on every domain type
// (direct type, abstract_domain<V> wrapper, abstract_domain_ref<V> wrapper).
// Implemented per domain in harness/doms/*.cpp through dombox_impl.hpp.
#pragma once
#include <cstdint>
#include <functional>
#include <memory>
#include <string>
#include <vector>

namespace vb {

// ---- variables (indices into a global table, see dombox_impl.hpp) ---------
enum Var {
  VX = 0, VY, VZ, VW, VV, VI,   // int32
  VB1, VB2, VB3,                // bool
  VS8, VL64,                    // int8, int64
  VA, VA2, VS,                  // integer arrays (A, A2 multi-cell; S single cell)
  VR1, VR2, VRR, VRB,           // regions: int, int, ref, bool
  VP, VQ, VR,                   // references
  VT1, VT2,                     // scratch ints used by probes (never in histories)
  NVARS
};
inline const char *var_name(int v) {
  static const char *n[] = {"x", "y", "z", "w", "v", "i", "b1", "b2", "b3", "s8", "l64", "A", "A2", "S",
                            "R1", "R2", "RR", "RB", "p", "q", "r", "t1", "t2"};
  return n[v];
}

// ---- plain data -------------------------------------------------------------
struct Itv {
  bool bottom = false;
  bool lb_inf = true, ub_inf = true;
  long lb = 0, ub = 0;
  bool big = false; // a finite bound did not fit a long (treated as that side unbounded for membership => never alarms)
  bool contains(long v) const {
    if (bottom) return false;
    if (!lb_inf && v < lb) return false;
    if (!ub_inf && v > ub) return false;
    return true;
  }
  bool is_top() const { return !bottom && lb_inf && ub_inf; }
  std::string str() const;
  bool operator==(const Itv &o) const {
    if (bottom || o.bottom) return bottom == o.bottom;
    return lb_inf == o.lb_inf && ub_inf == o.ub_inf && (lb_inf || lb == o.lb) && (ub_inf || ub == o.ub);
  }
};

enum CKind { C_EQ = 0, C_DISEQ, C_LEQ, C_LT };
struct LinExp {
  std::vector<std::pair<long, int>> terms; // (coef, var); a zero coef is kept on purpose
  long cst = 0;
  long eval(const long *val) const {
    long r = cst;
    for (auto &t : terms) r += t.first * val[t.second];
    return r;
  }
  std::string str() const;
};
struct LinCst { // e (kind) 0
  LinExp e;
  int kind = C_LEQ;
  bool big = false; // some coefficient/constant did not fit a long: cannot be evaluated (skipped)
  bool holds(const long *val) const {
    long v = e.eval(val);
    switch (kind) {
    case C_EQ: return v == 0;
    case C_DISEQ: return v != 0;
    case C_LEQ: return v <= 0;
    default: return v < 0;
    }
  }
  std::string str() const;
};

// ---- operations -------------------------------------------------------------
enum OpKind {
  O_ASSIGN,        // x := e
  O_ARITH_VV,      // x := y op z          (a = arith op code)
  O_ARITH_VK,      // x := y op k
  O_BITW_VV,       // bitwise
  O_BITW_VK,
  O_CAST,          // a = conv op code; dst v0, src v1
  O_SELECT,        // x := ite(c, e, e2)
  O_ASSUME,        // += {c}
  O_ASSUME2,       // += {c, c2}
  O_FORGET,        // forget {v0}
  O_FORGET2,       // forget {v0, v1}
  O_PROJECT,       // project on vars
  O_RENAME,        // rename v0 -> v1 (v1 fresh)
  O_EXPAND,        // expand v0 into v1 (v1 fresh)
  O_NORMALIZE,
  O_MINIMIZE,
  O_JOIN, O_JOIN_IP, O_MEET, O_MEET_IP, O_WIDEN, O_WIDEN_T, O_NARROW, // binary with `other`
  O_COPY_FROM,     // this := other (copy assignment)
  O_SET_TOP, O_SET_BOTTOM, O_MAKE_TOP, O_MAKE_BOTTOM,
  O_QUERY_ALL,     // run every read-only query (C16)
  // booleans
  O_BOOL_ASSIGN_CST,  // b := (c)
  O_BOOL_ASSIGN_VAR,  // b := [not] b'
  O_BOOL_APPLY,       // b := b1 op b2
  O_BOOL_ASSUME,      // assume [not] b
  O_BOOL_SELECT,      // b := ite(b1, b2, b3)
  // weak updates
  O_WEAK_ASSIGN,
  // backward
  O_BACK_ASSIGN,      // backward_assign(x, e, inv=other)
  O_BACK_ARITH_VK, O_BACK_ARITH_VV,
  // arrays (elem size in k)
  O_ARR_INIT,         // array_init(a=v0, elsz=k, lb=e.cst.., ub, val)
  O_ARR_LOAD,         // v0 := a(v1)[e]
  O_ARR_STORE,        // a(v0)[e] := e2, strong flag in a
  O_ARR_STORE_RANGE,  // a(v0)[e .. e2] := e3
  O_ARR_ASSIGN,       // a(v0) := a(v1)
  // regions / references
  O_REG_INIT, O_REG_COPY, O_REG_CAST,
  O_REF_MAKE,         // v0 := make_ref(region v1, size k, alloc site a)
  O_REF_FREE,         // free(region v0, ref v1)
  O_REF_LOAD,         // v2 := load(ref v0, region v1)
  O_REF_STORE,        // store(ref v0, region v1, val: var v2 or constant k when v2<0)
  O_REF_GEP,          // (v2, region v3) := gep(v0, region v1) + e
  O_REF_ASSUME,       // a = ref constraint kind; v0 [, v1], offset k
  O_REF_TO_INT, O_INT_TO_REF,
  O_REF_SELECT,       // v0,region v1 := ite(bool v2, ref v3|null, ref v4|null)
  O_NKINDS
};

enum RefCst { RC_NULL = 0, RC_NOT_NULL, RC_EQ, RC_NEQ, RC_LT, RC_LE };

struct Op {
  int kind = O_ASSIGN;
  int v0 = -1, v1 = -1, v2 = -1, v3 = -1, v4 = -1;
  int a = 0;      // sub-opcode / flag
  long k = 0;     // constant
  LinExp e, e2, e3;
  LinCst c, c2;
  std::vector<int> vars;
  int thresholds = 0; // index of threshold set for O_WIDEN_T
  std::string name;   // human readable
};

struct Queries { // result of O_QUERY_ALL style observation
  bool is_bottom = false, is_top = false;
  std::vector<Itv> at;                 // per queried variable
  std::vector<LinCst> csts;            // to_linear_constraint_system
  std::vector<std::vector<LinCst>> dcsts; // disjunctive system (each disjunct a conjunction); empty+dfalse => false
  bool dfalse = false;
};

enum NullAns { N_BOTTOM = 0, N_TRUE, N_FALSE, N_TOP };

class DomBox {
public:
  virtual ~DomBox() {}
  virtual std::unique_ptr<DomBox> clone() const = 0;      // copy construction
  virtual std::unique_ptr<DomBox> clone_via_move() const = 0; // copy, then move-construct from the copy
  virtual std::unique_ptr<DomBox> clone_via_assign() const = 0; // default-made value assigned from this
  // apply an operation; `other` is the second operand of binary operations.
  // Throws crab::verif::crab_error (as std::runtime_error) on CRAB_ERROR.
  virtual void apply(const Op &op, const DomBox *other) = 0;
  virtual bool is_bottom() const = 0;
  virtual bool is_top() const = 0;
  virtual bool leq(const DomBox &o) const = 0;
  virtual Itv at(int var) const = 0;         // const query
  virtual Itv at_mut(int var) = 0;           // operator[] (may normalise)
  virtual std::vector<LinCst> csts() const = 0;
  virtual void dcsts(std::vector<std::vector<LinCst>> &out, bool &is_false) const = 0;
  virtual bool entails(const LinCst &c) const = 0;
  virtual std::string print() const = 0;
  virtual std::string repr() const = 0; // private representation dump when available, else print()
  virtual std::string domain_name() const = 0;
  // reference queries (region domain); others return N_TOP / false
  virtual int is_null_ref(int ref) = 0;
  virtual bool alloc_sites(int ref, std::vector<long> &out) = 0;
  virtual bool tags(int rgn, int ref, std::vector<long> &out) = 0;
};

// ---- registry ---------------------------------------------------------------
enum Caps {
  CAP_NUM = 1,       // numerical operations
  CAP_BOOL = 2,      // boolean operations are modelled (not just ignored)
  CAP_ARRAY = 4,
  CAP_REGION = 8,
  CAP_BACKWARD = 16, // backward operations implemented
  CAP_EXACT_ZONE = 32, CAP_EXACT_OCT = 64, CAP_EXACT_INT = 128,
  CAP_MACHINE = 256, // machine-integer (wrapped) semantics
  CAP_REPR = 512,    // repr() is a complete private dump
};

struct Config { // one setting of the global domain parameters
  std::string name;
  std::vector<std::pair<std::string, std::string>> params;
};

struct DomEntry {
  std::string name;
  unsigned caps = 0;
  std::function<std::unique_ptr<DomBox>()> make_top;       // direct type
  std::function<std::unique_ptr<DomBox>()> make_top_wrapped; // abstract_domain<z_var>(D)
  std::function<std::unique_ptr<DomBox>()> make_top_ref;     // abstract_domain_ref<z_var>(D)
  std::vector<Config> configs_quick, configs_thorough;
  std::string base; // for liftings: name of the base domain (C12 lifting clause)
};

std::vector<DomEntry> &registry();
const DomEntry *find_domain(const std::string &name);
void apply_config(const Config &c);
void quiet_crab(); // disables CRAB_WARN output
struct Registrar {
  Registrar(const DomEntry &e) { registry().push_back(e); }
};

} // namespace vb
