# binary -> translation units (kept in sync with harness/registry.py)
BINS := c08_scalars
c08_scalars_OBJS := c08_scalars
BINS += c20_numbers
c20_numbers_OBJS := c20_numbers
