# binary -> translation units (kept in sync with harness/registry.py)
BINS := c08_scalars
c08_scalars_OBJS := c08_scalars
BINS += c20_numbers
c20_numbers_OBJS := c20_numbers
BINS += c13_wrapped
c13_wrapped_OBJS := c13_wrapped
BINS += c07_wto
c07_wto_OBJS := c07_wto
BINS += c19_containers
c19_containers_OBJS := c19_containers
BINS += e3_hist
e3_hist_OBJS := e3_hist common/domreg $(DOM_OBJS)
BINS += c12_exact
c12_exact_OBJS := c12_exact common/domreg $(DOM_OBJS)
BINS += c06_fixpoint
c06_fixpoint_OBJS := c06_fixpoint
