// C08 — scalar value abstractions: exhaustive tables.
//
// For every abstract scalar type, every pair of values of a finite alphabet and
// every operation: the result must contain op(p,q) for every concrete p,q drawn
// from the operands (soundness); lattice operations must contain union /
// intersection; inclusion answers must agree with membership; for integer
// intervals + - neg * join meet must be the exact hull (tightness).
#include "common/proto.hpp"

#include <crab/domains/boolean.hpp>
#include <crab/domains/congruence.hpp>
#include <crab/domains/constant.hpp>
#include <crab/domains/dis_interval.hpp>
#include <crab/domains/interval.hpp>
#include <crab/domains/interval_congruence.hpp>
#include <crab/domains/sign.hpp>
#include <crab/domains/small_range.hpp>
#include <crab/fixpoint/thresholds.hpp>
#include <crab/numbers/bignums.hpp>
#include <crab/support/debug.hpp>

#include <functional>
#include <boost/optional.hpp>

using namespace ikos;
using namespace crab::domains;
typedef long long ll;
typedef boost::optional<ll> oll;

static std::string PROP = "C08";
static int R = 4; // finite bounds range [-R,R]

// ---------- concrete semantics (DESIGN §1.3) ----------
static oll c_add(ll a, ll b) { return a + b; }
static oll c_sub(ll a, ll b) { return a - b; }
static oll c_mul(ll a, ll b) { return a * b; }
static oll c_sdiv(ll a, ll b) {
  if (b == 0) return boost::none;
  return a / b; // C++: truncation toward zero
}
static oll c_srem(ll a, ll b) {
  if (b == 0) return boost::none;
  return a % b; // sign of the dividend
}
static oll c_udiv(ll a, ll b) {
  if (a < 0 || b <= 0) return boost::none;
  return a / b;
}
static oll c_urem(ll a, ll b) {
  if (a < 0 || b <= 0) return boost::none;
  return a % b;
}
static oll c_and(ll a, ll b) { return a & b; }
static oll c_or(ll a, ll b) { return a | b; }
static oll c_xor(ll a, ll b) { return a ^ b; }
static oll c_shl(ll a, ll b) {
  if (b < 0 || b > 16) return boost::none;
  return a * (1LL << b);
}
static oll c_ashr(ll a, ll b) {
  if (b < 0 || b > 16) return boost::none;
  // floor(a / 2^b)
  ll d = 1LL << b;
  ll q = a / d;
  if ((a % d) != 0 && a < 0) q -= 1;
  return q;
}
static oll c_lshr(ll a, ll b) {
  if (a < 0 || b < 0 || b > 16) return boost::none;
  return a >> b;
}

// The candidate universe of concrete integers used to draw members.
static std::vector<ll> universe() {
  std::vector<ll> u;
  for (ll v = -R - 3; v <= R + 3; v++) u.push_back(v);
  for (ll v : {10000LL, 10001LL, 65536LL, 1000003LL}) {
    u.push_back(v);
    u.push_back(-v);
  }
  return u;
}

template <typename T> struct Val {
  T v;
  std::string name;
  std::vector<ll> members; // members inside the universe
};

template <typename T> struct BinOp {
  std::string name;
  std::function<T(const T &, const T &)> abs;
  std::function<oll(ll, ll)> conc;
};

template <typename T> static std::string show(const T &x) {
  crab::crab_string_os os;
  os << x;
  return os.str();
}

// Generic soundness loop for binary arithmetic ops.
template <typename T>
static void run_binops(const std::string &tname, std::vector<Val<T>> &vals,
                       const std::vector<BinOp<T>> &ops,
                       std::function<bool(const T &, ll)> contains,
                       std::function<bool(const T &)> trivial, uint64_t &caseno,
                       std::set<uint64_t> &nontriv) {
  for (size_t oi = 0; oi < ops.size(); oi++) {
    for (size_t i = 0; i < vals.size(); i++) {
      for (size_t j = 0; j < vals.size(); j++) {
        uint64_t idx = caseno++;
        std::string spec = tname + ":" + ops[oi].name + ":" + std::to_string(i) +
                           ":" + std::to_string(j);
        if (!vp::args().replay.empty()) {
          if (vp::args().replay != spec) continue;
        } else if (!vp::mine(idx))
          continue;
        vp::set_case(spec);
        T res = vals[i].v;
        try {
          res = ops[oi].abs(vals[i].v, vals[j].v);
        } catch (crab::verif::crab_error &e) {
          vp::viol(tname + "." + ops[oi].name + ":abort", spec,
                   vals[i].name + " " + ops[oi].name + " " + vals[j].name +
                       " aborts: " + e.what());
          continue;
        }
        vp::stat("evaluations");
        vp::stat("ops." + tname);
        if (!trivial(res) && !trivial(vals[i].v) && !trivial(vals[j].v))
          nontriv.insert(vp::fnv(spec));
        if (vp::want_sample() && i > 3 && j > 5 && !trivial(res))
          vp::sample(tname + ": " + vals[i].name + " " + ops[oi].name + " " +
                     vals[j].name + " = " + show(res));
        bool bad = false;
        for (ll p : vals[i].members) {
          for (ll q : vals[j].members) {
            oll c = ops[oi].conc(p, q);
            if (!c) continue;
            vp::stat("member_checks");
            if (!contains(res, *c)) {
              vp::viol(tname + "." + ops[oi].name + ":unsound", spec,
                       vals[i].name + " " + ops[oi].name + " " + vals[j].name +
                           " = " + show(res) + " misses " + std::to_string(p) +
                           " op " + std::to_string(q) + " = " +
                           std::to_string(*c));
              bad = true;
              break;
            }
          }
          if (bad) break;
        }
      }
    }
  }
}

// Generic lattice loop: join/meet/widening/narrowing/inclusion.
template <typename T> struct Lattice {
  std::function<T(const T &, const T &)> join, meet, widen, narrow;
  std::function<bool(const T &, const T &)> leq;
  std::function<bool(const T &)> is_bottom, is_top;
  // exact inclusion decided independently (optional)
  std::function<boost::optional<bool>(const T &, const T &)> exact_leq;
};

template <typename T>
static void run_lattice(const std::string &tname, std::vector<Val<T>> &vals,
                        const Lattice<T> &L,
                        std::function<bool(const T &, ll)> contains,
                        uint64_t &caseno, std::set<uint64_t> &nontriv) {
  std::vector<ll> U = universe();
  for (size_t i = 0; i < vals.size(); i++) {
    for (size_t j = 0; j < vals.size(); j++) {
      uint64_t idx = caseno++;
      std::string spec =
          tname + ":lattice:" + std::to_string(i) + ":" + std::to_string(j);
      if (!vp::args().replay.empty()) {
        if (vp::args().replay != spec) continue;
      } else if (!vp::mine(idx))
        continue;
      vp::set_case(spec);
      const T &a = vals[i].v, &b = vals[j].v;
      std::string ab = vals[i].name + " , " + vals[j].name;
      try {
        T jn = L.join(a, b), mt = L.meet(a, b), wd = L.widen(a, b);
        bool le = L.leq(a, b);
        vp::stat("evaluations", 4);
        vp::stat("ops." + tname, 4);
        if (!L.is_bottom(a) && !L.is_bottom(b) && !L.is_top(a) && !L.is_top(b))
          nontriv.insert(vp::fnv(spec));
        for (ll p : U) {
          bool ina = contains(a, p), inb = contains(b, p);
          vp::stat("member_checks");
          if ((ina || inb) && !contains(jn, p))
            vp::viol(tname + ".join:unsound", spec,
                     ab + " join=" + show(jn) + " misses " + std::to_string(p));
          if ((ina || inb) && !contains(wd, p))
            vp::viol(tname + ".widening:unsound", spec,
                     ab + " widening=" + show(wd) + " misses " +
                         std::to_string(p));
          if (ina && inb && !contains(mt, p))
            vp::viol(tname + ".meet:unsound", spec,
                     ab + " meet=" + show(mt) + " misses " + std::to_string(p));
          if (le && ina && !inb)
            vp::viol(tname + ".leq:unsound", spec,
                     ab + " leq says yes but " + std::to_string(p) +
                         " only in the left operand");
        }
        if (L.exact_leq) {
          boost::optional<bool> ex = L.exact_leq(a, b);
          if (ex && *ex != le)
            vp::viol(tname + ".leq:inexact", spec,
                     ab + " leq=" + std::to_string(le) + " expected " +
                         std::to_string(*ex));
        }
        if (i == j && !le)
          vp::viol(tname + ".leq:irreflexive", spec, ab);
        if (L.is_bottom(a) && !le)
          vp::viol(tname + ".leq:bottom-left", spec, ab);
        if (!L.is_bottom(b) && L.is_top(b) && !le)
          vp::viol(tname + ".leq:top-right", spec, ab);
        // narrowing of a decreasing pair still contains the second argument
        if (L.narrow && L.leq(b, a)) {
          T nr = L.narrow(a, b);
          vp::stat("evaluations");
          for (ll p : U)
            if (contains(b, p) && !contains(nr, p))
              vp::viol(tname + ".narrowing:unsound", spec,
                       ab + " narrowing=" + show(nr) + " misses " +
                           std::to_string(p));
        }
      } catch (crab::verif::crab_error &e) {
        vp::viol(tname + ".lattice:abort", spec, ab + " aborts: " + e.what());
      }
    }
  }
}

template <typename T>
static void fill_members(std::vector<Val<T>> &vals,
                         std::function<bool(const T &, ll)> contains) {
  std::vector<ll> U = universe();
  for (auto &v : vals) {
    v.members.clear();
    for (ll u : U)
      if (contains(v.v, u)) v.members.push_back(u);
  }
}

// ============================ z_interval ====================================
typedef interval<z_number> zi_t;
typedef bound<z_number> zb_t;

static bool zi_contains(const zi_t &i, ll p) {
  if (i.is_bottom()) return false;
  zb_t lb = i.lb(), ub = i.ub();
  if (lb.is_finite() && z_number((long)p) < *lb.number()) return false;
  if (ub.is_finite() && z_number((long)p) > *ub.number()) return false;
  // an infinite bound must have the right sign to be a bound at all
  if (lb.is_infinite() && !lb.is_minus_infinity()) return false;
  if (ub.is_infinite() && !ub.is_plus_infinity()) return false;
  return true;
}

static std::vector<Val<zi_t>> zi_values() {
  std::vector<Val<zi_t>> v;
  v.push_back({zi_t::bottom(), "_|_", {}});
  v.push_back({zi_t::top(), "[-oo,+oo]", {}});
  for (int l = -R; l <= R; l++)
    for (int u = l; u <= R; u++)
      v.push_back({zi_t(zb_t(z_number(l)), zb_t(z_number(u))),
                   "[" + std::to_string(l) + "," + std::to_string(u) + "]",
                   {}});
  for (int l = -R; l <= R; l++) {
    v.push_back({zi_t(zb_t(z_number(l)), zb_t::plus_infinity()),
                 "[" + std::to_string(l) + ",+oo]",
                 {}});
    v.push_back({zi_t(zb_t::minus_infinity(), zb_t(z_number(l))),
                 "[-oo," + std::to_string(l) + "]",
                 {}});
  }
  return v;
}

// extended integer for the independent hull computation
struct Ext {
  int inf; // -1, 0, +1
  ll n;
};
static bool ext_lt(Ext a, Ext b) {
  if (a.inf != b.inf) return a.inf < b.inf;
  if (a.inf != 0) return false;
  return a.n < b.n;
}
static Ext ext_mul(Ext a, Ext b) {
  if ((a.inf == 0 && a.n == 0) || (b.inf == 0 && b.n == 0)) return {0, 0};
  int sa = a.inf ? a.inf : (a.n > 0 ? 1 : -1);
  int sb = b.inf ? b.inf : (b.n > 0 ? 1 : -1);
  if (a.inf || b.inf) return {sa * sb, 0};
  return {0, a.n * b.n};
}
static Ext ext_add(Ext a, Ext b) { // never called with opposite infinities
  if (a.inf) return a;
  if (b.inf) return b;
  return {0, a.n + b.n};
}
static bool zi_bounds(const zi_t &i, Ext &lo, Ext &hi) {
  if (i.is_bottom()) return false;
  lo = i.lb().is_finite() ? Ext{0, (ll)(long)(*i.lb().number())} : Ext{-1, 0};
  hi = i.ub().is_finite() ? Ext{0, (ll)(long)(*i.ub().number())} : Ext{1, 0};
  return true;
}
static zi_t zi_from(Ext lo, Ext hi) {
  zb_t l = lo.inf ? zb_t::minus_infinity() : zb_t(z_number((long)lo.n));
  zb_t u = hi.inf ? zb_t::plus_infinity() : zb_t(z_number((long)hi.n));
  return zi_t(l, u);
}
static bool zi_same(const zi_t &a, const zi_t &b) {
  if (a.is_bottom() || b.is_bottom()) return a.is_bottom() && b.is_bottom();
  return a.lb() == b.lb() && a.ub() == b.ub();
}

static void zi_tightness(std::vector<Val<zi_t>> &vals, uint64_t &caseno) {
  const char *names[] = {"+", "-", "*", "join", "meet", "neg"};
  for (int op = 0; op < 6; op++)
    for (size_t i = 0; i < vals.size(); i++)
      for (size_t j = 0; j < vals.size(); j++) {
        if (op == 5 && j != 0) continue;
        uint64_t idx = caseno++;
        std::string spec = std::string("z_interval:tight") + names[op] + ":" +
                           std::to_string(i) + ":" + std::to_string(j);
        if (!vp::args().replay.empty()) {
          if (vp::args().replay != spec) continue;
        } else if (!vp::mine(idx))
          continue;
        vp::set_case(spec);
        const zi_t &a = vals[i].v, &b = vals[j].v;
        zi_t res = zi_t::bottom(), exp = zi_t::bottom();
        Ext al, ah, bl, bh;
        bool an = zi_bounds(a, al, ah), bn = zi_bounds(b, bl, bh);
        try {
          switch (op) {
          case 0:
            res = a + b;
            if (an && bn) exp = zi_from(ext_add(al, bl), ext_add(ah, bh));
            break;
          case 1:
            res = a - b;
            if (an && bn) {
              Ext nbl = {-bh.inf, -bh.n}, nbh = {-bl.inf, -bl.n};
              exp = zi_from(ext_add(al, nbl), ext_add(ah, nbh));
            }
            break;
          case 2:
            res = a * b;
            if (an && bn) {
              Ext c[4] = {ext_mul(al, bl), ext_mul(al, bh), ext_mul(ah, bl),
                          ext_mul(ah, bh)};
              Ext lo = c[0], hi = c[0];
              for (int k = 1; k < 4; k++) {
                if (ext_lt(c[k], lo)) lo = c[k];
                if (ext_lt(hi, c[k])) hi = c[k];
              }
              exp = zi_from(lo, hi);
            }
            break;
          case 3:
            res = a | b;
            if (an && bn)
              exp = zi_from(ext_lt(bl, al) ? bl : al, ext_lt(ah, bh) ? bh : ah);
            else if (an)
              exp = a;
            else if (bn)
              exp = b;
            break;
          case 4:
            res = a & b;
            if (an && bn) {
              Ext lo = ext_lt(al, bl) ? bl : al, hi = ext_lt(ah, bh) ? ah : bh;
              if (!ext_lt(hi, lo)) exp = zi_from(lo, hi);
            }
            break;
          case 5:
            res = -a;
            if (an) exp = zi_from(Ext{-ah.inf, -ah.n}, Ext{-al.inf, -al.n});
            break;
          }
        } catch (crab::verif::crab_error &e) {
          vp::viol(std::string("z_interval.") + names[op] + ":abort", spec,
                   vals[i].name + " " + names[op] + " " + vals[j].name +
                       " aborts: " + e.what());
          continue;
        }
        vp::stat("evaluations");
        vp::stat("tightness_checks");
        if (!zi_same(res, exp))
          vp::viol(std::string("z_interval.") + names[op] + ":not-tight", spec,
                   vals[i].name + " " + names[op] + " " + vals[j].name + " = " +
                       show(res) + " expected " + show(exp));
        // brute-force cross-check of the expected hull on finite operands
        if (an && bn && !al.inf && !ah.inf && !bl.inf && !bh.inf && op < 3) {
          ll lo = 0, hi = 0;
          bool first = true;
          for (ll p = al.n; p <= ah.n; p++)
            for (ll q = bl.n; q <= bh.n; q++) {
              ll c = op == 0 ? p + q : op == 1 ? p - q : p * q;
              if (first || c < lo) lo = c;
              if (first || c > hi) hi = c;
              first = false;
            }
          if (!zi_same(res, zi_from(Ext{0, lo}, Ext{0, hi})))
            vp::viol(std::string("z_interval.") + names[op] + ":not-tight", spec,
                     vals[i].name + " " + names[op] + " " + vals[j].name +
                         " = " + show(res) + " but the hull is [" +
                         std::to_string(lo) + "," + std::to_string(hi) + "]");
        }
      }
}

static void do_z_interval(uint64_t &caseno, std::set<uint64_t> &nontriv) {
  auto vals = zi_values();
  std::function<bool(const zi_t &, ll)> contains = zi_contains;
  fill_members(vals, contains);
  std::vector<BinOp<zi_t>> ops = {
      {"+", [](const zi_t &a, const zi_t &b) { return a + b; }, c_add},
      {"-", [](const zi_t &a, const zi_t &b) { return a - b; }, c_sub},
      {"*", [](const zi_t &a, const zi_t &b) { return a * b; }, c_mul},
      {"/", [](const zi_t &a, const zi_t &b) { return a / b; }, c_sdiv},
      {"SRem", [](const zi_t &a, const zi_t &b) { return a.SRem(b); }, c_srem},
      {"UDiv", [](const zi_t &a, const zi_t &b) { return a.UDiv(b); }, c_udiv},
      {"URem", [](const zi_t &a, const zi_t &b) { return a.URem(b); }, c_urem},
      {"And", [](const zi_t &a, const zi_t &b) { return a.And(b); }, c_and},
      {"Or", [](const zi_t &a, const zi_t &b) { return a.Or(b); }, c_or},
      {"Xor", [](const zi_t &a, const zi_t &b) { return a.Xor(b); }, c_xor},
      {"Shl", [](const zi_t &a, const zi_t &b) { return a.Shl(b); }, c_shl},
      {"LShr", [](const zi_t &a, const zi_t &b) { return a.LShr(b); }, c_lshr},
      {"AShr", [](const zi_t &a, const zi_t &b) { return a.AShr(b); }, c_ashr},
      {"neg", [](const zi_t &a, const zi_t &) { return -a; },
       [](ll a, ll) -> oll { return -a; }},
      {"lower_half_line",
       [](const zi_t &a, const zi_t &) { return a.lower_half_line(); },
       [](ll a, ll) -> oll { return a - 3; }},
      {"upper_half_line",
       [](const zi_t &a, const zi_t &) { return a.upper_half_line(); },
       [](ll a, ll) -> oll { return a + 3; }},
      {"trim",
       [](const zi_t &a, const zi_t &b) {
         return linear_interval_solver_impl::trim_interval(a, b);
       },
       // a value of a that differs from every value of b... only defined for
       // singleton b: keep p when p != q (checked per pair below)
       [](ll p, ll q) -> oll { return p != q ? oll(p) : boost::none; }},
  };
  // "trim" is only meaningful when b is a singleton: with several members in b
  // the pairwise rule above would demand p for every p, which is what
  // trim_interval returns (i unchanged) — so the rule is sound for all b.
  std::function<bool(const zi_t &)> trivial = [](const zi_t &x) {
    return x.is_bottom() || x.is_top();
  };
  run_binops<zi_t>("z_interval", vals, ops, contains, trivial, caseno, nontriv);

  Lattice<zi_t> L;
  L.join = [](const zi_t &a, const zi_t &b) { return a | b; };
  L.meet = [](const zi_t &a, const zi_t &b) { return a & b; };
  L.widen = [](const zi_t &a, const zi_t &b) { return a || b; };
  L.narrow = [](const zi_t &a, const zi_t &b) { return a && b; };
  L.leq = [](const zi_t &a, const zi_t &b) { return a <= b; };
  L.is_bottom = [](const zi_t &a) { return a.is_bottom(); };
  L.is_top = [](const zi_t &a) { return a.is_top(); };
  L.exact_leq = [](const zi_t &a, const zi_t &b) -> boost::optional<bool> {
    Ext al, ah, bl, bh;
    if (!zi_bounds(a, al, ah)) return true;
    if (!zi_bounds(b, bl, bh)) return false;
    return !ext_lt(al, bl) && !ext_lt(bh, ah);
  };
  run_lattice<zi_t>("z_interval", vals, L, contains, caseno, nontriv);

  // widening with thresholds: contains both; with each threshold set
  {
    std::vector<std::vector<int>> tsets = {{}, {0}, {-1, 0, 3, 100}};
    std::vector<ll> U = universe();
    for (size_t t = 0; t < tsets.size(); t++) {
      crab::thresholds<z_number> ts(20);
      for (int k : tsets[t]) ts.add(zb_t(z_number(k)));
      for (size_t i = 0; i < vals.size(); i++)
        for (size_t j = 0; j < vals.size(); j++) {
          uint64_t idx = caseno++;
          std::string spec = "z_interval:widening_thresholds" +
                             std::to_string(t) + ":" + std::to_string(i) + ":" +
                             std::to_string(j);
          if (!vp::args().replay.empty()) {
            if (vp::args().replay != spec) continue;
          } else if (!vp::mine(idx))
            continue;
          vp::set_case(spec);
          zi_t w = vals[i].v.widening_thresholds(vals[j].v, ts);
          vp::stat("evaluations");
          for (ll p : U)
            if ((zi_contains(vals[i].v, p) || zi_contains(vals[j].v, p)) &&
                !zi_contains(w, p))
              vp::viol("z_interval.widening_thresholds:unsound", spec,
                       vals[i].name + " , " + vals[j].name + " = " + show(w) +
                           " misses " + std::to_string(p));
        }
    }
  }
  zi_tightness(vals, caseno);

  // bound<z> arithmetic against extended integers (finite results only where
  // the mathematical result is determined)
  {
    std::vector<std::pair<zb_t, Ext>> bs;
    bs.push_back({zb_t::minus_infinity(), Ext{-1, 0}});
    bs.push_back({zb_t::plus_infinity(), Ext{1, 0}});
    for (int k = -R; k <= R; k++) bs.push_back({zb_t(z_number(k)), Ext{0, k}});
    auto same = [](const zb_t &b, Ext e) {
      if (e.inf > 0) return b.is_plus_infinity();
      if (e.inf < 0) return b.is_minus_infinity();
      return b.is_finite() && *b.number() == z_number((long)e.n);
    };
    for (size_t i = 0; i < bs.size(); i++)
      for (size_t j = 0; j < bs.size(); j++) {
        uint64_t idx = caseno++;
        std::string spec =
            "z_bound:ops:" + std::to_string(i) + ":" + std::to_string(j);
        if (!vp::args().replay.empty()) {
          if (vp::args().replay != spec) continue;
        } else if (!vp::mine(idx))
          continue;
        vp::set_case(spec);
        Ext a = bs[i].second, b = bs[j].second;
        const zb_t &x = bs[i].first, &y = bs[j].first;
        std::string xy = show(x) + " , " + show(y);
        vp::stat("evaluations", 6);
        // order
        if ((x < y) != ext_lt(a, b))
          vp::viol("z_bound.<:wrong", spec, xy);
        if ((x <= y) != !ext_lt(b, a))
          vp::viol("z_bound.<=:wrong", spec, xy);
        // + and - (undefined for oo + -oo: crab aborts there by design)
        try {
          if (!(a.inf && b.inf && a.inf != b.inf)) {
            if (!same(x + y, ext_add(a, b)))
              vp::viol("z_bound.+:wrong", spec, xy + " = " + show(x + y));
          }
          Ext nb = {-b.inf, -b.n};
          if (!(a.inf && nb.inf && a.inf != nb.inf)) {
            if (!same(x - y, ext_add(a, nb)))
              vp::viol("z_bound.-:wrong", spec, xy + " = " + show(x - y));
          }
          if (!same(x * y, ext_mul(a, b)))
            vp::viol("z_bound.*:wrong", spec, xy + " = " + show(x * y));
          // division: finite/finite truncates; finite/inf = 0; inf/finite = +-inf
          if (!(b.inf == 0 && b.n == 0) && !(a.inf && b.inf)) {
            Ext e;
            if (!a.inf && !b.inf)
              e = Ext{0, a.n / b.n};
            else if (!a.inf)
              e = Ext{0, 0};
            else
              e = Ext{a.inf * (b.n > 0 ? 1 : -1), 0};
            if (!same(x / y, e))
              vp::viol("z_bound./:wrong", spec, xy + " = " + show(x / y));
          }
        } catch (crab::verif::crab_error &e) {
          vp::viol("z_bound.arith:abort", spec, xy + " aborts: " + e.what());
        }
      }
  }
}

// ============================ q_interval ====================================
typedef interval<q_number> qi_t;
typedef bound<q_number> qb_t;
// concrete rationals as pairs over a common denominator 4: value = n/4
static q_number Q4(ll n) { return q_number(z_number((long)n), z_number(4)); }

static void do_q_interval(uint64_t &caseno, std::set<uint64_t> &nontriv) {
  // bounds n/4 for n in a small set; members probed on the same grid
  std::vector<ll> grid = {-8, -4, -2, 0, 2, 4, 8};
  struct QV {
    qi_t v;
    std::string name;
  };
  std::vector<QV> vals;
  vals.push_back({qi_t::bottom(), "_|_"});
  vals.push_back({qi_t::top(), "top"});
  for (size_t a = 0; a < grid.size(); a++) {
    for (size_t b = a; b < grid.size(); b++)
      vals.push_back({qi_t(qb_t(Q4(grid[a])), qb_t(Q4(grid[b]))),
                      "[" + std::to_string(grid[a]) + "/4," +
                          std::to_string(grid[b]) + "/4]"});
    vals.push_back({qi_t(qb_t(Q4(grid[a])), qb_t::plus_infinity()),
                    "[" + std::to_string(grid[a]) + "/4,+oo]"});
    vals.push_back({qi_t(qb_t::minus_infinity(), qb_t(Q4(grid[a]))),
                    "[-oo," + std::to_string(grid[a]) + "/4]"});
  }
  std::vector<q_number> U;
  for (ll n = -12; n <= 12; n++) U.push_back(Q4(n));
  U.push_back(q_number(z_number(1000), z_number(1)));
  U.push_back(q_number(z_number(-1000), z_number(1)));
  U.push_back(q_number(z_number(1), z_number(1000)));
  U.push_back(q_number(z_number(-1), z_number(1000)));
  auto contains = [](const qi_t &i, const q_number &p) {
    if (i.is_bottom()) return false;
    if (i.lb().is_finite() && p < *i.lb().number()) return false;
    if (i.ub().is_finite() && p > *i.ub().number()) return false;
    if (i.lb().is_infinite() && !i.lb().is_minus_infinity()) return false;
    if (i.ub().is_infinite() && !i.ub().is_plus_infinity()) return false;
    return true;
  };
  const char *names[] = {"+", "-", "*", "/", "join", "meet", "widening"};
  for (int op = 0; op < 7; op++)
    for (size_t i = 0; i < vals.size(); i++)
      for (size_t j = 0; j < vals.size(); j++) {
        uint64_t idx = caseno++;
        std::string spec = std::string("q_interval:") + names[op] + ":" +
                           std::to_string(i) + ":" + std::to_string(j);
        if (!vp::args().replay.empty()) {
          if (vp::args().replay != spec) continue;
        } else if (!vp::mine(idx))
          continue;
        vp::set_case(spec);
        const qi_t &a = vals[i].v, &b = vals[j].v;
        qi_t r = qi_t::bottom();
        try {
          switch (op) {
          case 0: r = a + b; break;
          case 1: r = a - b; break;
          case 2: r = a * b; break;
          case 3: r = a / b; break;
          case 4: r = a | b; break;
          case 5: r = a & b; break;
          case 6: r = a || b; break;
          }
        } catch (crab::verif::crab_error &e) {
          vp::viol(std::string("q_interval.") + names[op] + ":abort", spec,
                   vals[i].name + " " + names[op] + " " + vals[j].name +
                       " aborts: " + e.what());
          continue;
        }
        vp::stat("evaluations");
        vp::stat("ops.q_interval");
        if (!r.is_bottom() && !r.is_top()) nontriv.insert(vp::fnv(spec));
        bool bad = false;
        for (const q_number &p : U) {
          if (bad) break;
          bool ina = contains(a, p);
          if (op >= 4) {
            bool inb = contains(b, p);
            bool need = (op == 5) ? (ina && inb) : (ina || inb);
            if (need && !contains(r, p)) {
              vp::viol(std::string("q_interval.") + names[op] + ":unsound", spec,
                       vals[i].name + " " + names[op] + " " + vals[j].name +
                           " = " + show(r) + " misses " + show(p));
              bad = true;
            }
            continue;
          }
          if (!ina) continue;
          for (const q_number &q : U) {
            if (!contains(b, q)) continue;
            if (op == 3 && q == q_number(0)) continue;
            q_number c = op == 0 ? p + q : op == 1 ? p - q : op == 2 ? p * q : p / q;
            vp::stat("member_checks");
            if (!contains(r, c)) {
              vp::viol(std::string("q_interval.") + names[op] + ":unsound", spec,
                       vals[i].name + " " + names[op] + " " + vals[j].name +
                           " = " + show(r) + " misses " + show(p) + " op " +
                           show(q) + " = " + show(c));
              bad = true;
              break;
            }
          }
        }
      }
}

// ============================ congruence ====================================
typedef congruence<z_number> cg_t;
static bool cg_contains(const cg_t &c, ll p) {
  if (c.is_bottom()) return false;
  // big-number arithmetic: moduli and remainders produced by shifts of the closed alphabet exceed 64 bits
  z_number a = c.get_modulo(), b = c.get_remainder(), zp((long)p);
  if (a == z_number(0)) return zp == b;
  return (zp - b) % a == z_number(0);
}
static cg_t mk_cg(ll a, ll b) {
  // only public constructors: build aZ+b as (top*a)+b
  if (a == 0) return cg_t(z_number((long)b));
  return (cg_t::top() * cg_t(z_number((long)a))) + cg_t(z_number((long)b));
}

static void do_congruence(uint64_t &caseno, std::set<uint64_t> &nontriv) {
  std::vector<Val<cg_t>> vals;
  vals.push_back({cg_t::bottom(), "_|_", {}});
  vals.push_back({cg_t::top(), "top", {}});
  for (int k = -R; k <= R; k++)
    vals.push_back({cg_t(z_number(k)), std::to_string(k), {}});
  for (int a = 2; a <= R + 2; a++)
    for (int b = 0; b < a; b++)
      vals.push_back(
          {mk_cg(a, b), std::to_string(a) + "Z+" + std::to_string(b), {}});
  std::function<bool(const cg_t &, ll)> contains = cg_contains;
  // sanity of the constructed alphabet (the builder uses * and +, which are
  // themselves under test: verify through the getters)
  {
    size_t k = 2 + (2 * R + 1);
    for (int a = 2; a <= R + 2; a++)
      for (int b = 0; b < a; b++, k++) {
        const cg_t &c = vals[k].v;
        if (c.is_bottom() || (long)c.get_modulo() != a ||
            (((long)c.get_remainder() - b) % a) != 0)
          vp::viol("congruence.construct:wrong", "congruence:construct",
                   vals[k].name + " built as " + show(c));
      }
  }
  fill_members(vals, contains);
  std::vector<BinOp<cg_t>> ops = {
      {"+", [](const cg_t &a, const cg_t &b) { return a + b; }, c_add},
      {"-", [](const cg_t &a, const cg_t &b) { return a - b; }, c_sub},
      {"*", [](const cg_t &a, const cg_t &b) { return a * b; }, c_mul},
      {"/", [](const cg_t &a, const cg_t &b) { return a / b; }, c_sdiv},
      {"%", [](const cg_t &a, const cg_t &b) { return a % b; }, c_srem},
      {"SDiv", [](const cg_t &a, const cg_t &b) { return a.SDiv(b); }, c_sdiv},
      {"SRem", [](const cg_t &a, const cg_t &b) { return a.SRem(b); }, c_srem},
      {"UDiv", [](const cg_t &a, const cg_t &b) { return a.UDiv(b); }, c_udiv},
      {"URem", [](const cg_t &a, const cg_t &b) { return a.URem(b); }, c_urem},
      {"And", [](const cg_t &a, const cg_t &b) { return a.And(b); }, c_and},
      {"Or", [](const cg_t &a, const cg_t &b) { return a.Or(b); }, c_or},
      {"Xor", [](const cg_t &a, const cg_t &b) { return a.Xor(b); }, c_xor},
      {"Shl", [](const cg_t &a, const cg_t &b) { return a.Shl(b); }, c_shl},
      {"LShr", [](const cg_t &a, const cg_t &b) { return a.LShr(b); }, c_lshr},
      {"AShr", [](const cg_t &a, const cg_t &b) { return a.AShr(b); }, c_ashr},
      {"neg", [](const cg_t &a, const cg_t &) { return -a; },
       [](ll a, ll) -> oll { return -a; }},
  };
  std::function<bool(const cg_t &)> trivial = [](const cg_t &x) {
    return x.is_bottom() || x.is_top();
  };
  // Results become operands: the alphabet is closed once under the arithmetic operators, which adds the
  // representations only the implementation produces (negative moduli from divisions by negative constants,
  // unreduced remainders); they are used by the operator tables and the lattice tables below.
  {
    std::set<std::string> have;
    for (auto &v : vals) have.insert(show(v.v));
    size_t base = vals.size();
    for (size_t i = 0; i < base && vals.size() < base + 80; i++)
      for (size_t j = 0; j < base && vals.size() < base + 80; j++)
        for (size_t o = 0; o < 7; o++) { // + - * / % SDiv SRem
          cg_t r = cg_t::top();
          try {
            r = ops[o].abs(vals[i].v, vals[j].v);
          } catch (std::runtime_error &) {
            continue;
          }
          if (r.is_bottom() || r.is_top()) continue;
          std::string k = show(r);
          if (have.insert(k).second) vals.push_back({r, "(" + vals[i].name + ops[o].name + vals[j].name + ")=" + k, {}});
        }
    fill_members(vals, contains);
  }
  run_binops<cg_t>("congruence", vals, ops, contains, trivial, caseno, nontriv);
  Lattice<cg_t> L;
  L.join = [](const cg_t &a, const cg_t &b) { return a | b; };
  L.meet = [](const cg_t &a, const cg_t &b) { return a & b; };
  L.widen = [](const cg_t &a, const cg_t &b) { return a || b; };
  L.narrow = [](const cg_t &a, const cg_t &b) { return a && b; };
  L.leq = [](const cg_t &a, const cg_t &b) { return a <= b; };
  L.is_bottom = [](const cg_t &a) { return a.is_bottom(); };
  L.is_top = [](const cg_t &a) { return a.is_top(); };
  run_lattice<cg_t>("congruence", vals, L, contains, caseno, nontriv);
}

// ======================== interval_congruence ===============================
typedef interval_congruence<z_number> ic_t;
static bool ic_contains(const ic_t &x, ll p) {
  ic_t y(x);
  if (y.is_bottom()) return false;
  return zi_contains(y.first(), p) && cg_contains(y.second(), p);
}
static void do_interval_congruence(uint64_t &caseno,
                                   std::set<uint64_t> &nontriv) {
  std::vector<Val<ic_t>> vals;
  vals.push_back({ic_t::bottom(), "_|_", {}});
  vals.push_back({ic_t::top(), "top", {}});
  int r = 3;
  std::vector<std::pair<zi_t, std::string>> is;
  is.push_back({zi_t::top(), "[-oo,+oo]"});
  for (int l = -r; l <= r; l += 1)
    for (int u = l; u <= r; u += 2)
      is.push_back({zi_t(zb_t(z_number(l)), zb_t(z_number(u))),
                    "[" + std::to_string(l) + "," + std::to_string(u) + "]"});
  is.push_back({zi_t(zb_t(z_number(-1)), zb_t::plus_infinity()), "[-1,+oo]"});
  is.push_back({zi_t(zb_t::minus_infinity(), zb_t(z_number(2))), "[-oo,2]"});
  std::vector<std::pair<cg_t, std::string>> cs;
  cs.push_back({cg_t::top(), "1Z"});
  for (int a = 2; a <= 4; a++)
    for (int b = 0; b < a; b++)
      cs.push_back(
          {mk_cg(a, b), std::to_string(a) + "Z+" + std::to_string(b)});
  for (auto &i : is)
    for (auto &c : cs) {
      ic_t v(zi_t(i.first), cg_t(c.first));
      if (v.is_bottom()) continue;
      vals.push_back({v, "(" + i.second + "," + c.second + ")", {}});
    }
  std::function<bool(const ic_t &, ll)> contains = ic_contains;
  fill_members(vals, contains);
  std::vector<BinOp<ic_t>> ops = {
      {"+", [](const ic_t &a, const ic_t &b) { return a + b; }, c_add},
      {"-", [](const ic_t &a, const ic_t &b) { return a - b; }, c_sub},
      {"*", [](const ic_t &a, const ic_t &b) { return a * b; }, c_mul},
      {"/", [](const ic_t &a, const ic_t &b) { return a / b; }, c_sdiv},
      {"SDiv", [](const ic_t &a, const ic_t &b) { return a.SDiv(b); }, c_sdiv},
      {"SRem", [](const ic_t &a, const ic_t &b) { return a.SRem(b); }, c_srem},
      {"UDiv", [](const ic_t &a, const ic_t &b) { return a.UDiv(b); }, c_udiv},
      {"URem", [](const ic_t &a, const ic_t &b) { return a.URem(b); }, c_urem},
      {"And", [](const ic_t &a, const ic_t &b) { return a.And(b); }, c_and},
      {"Or", [](const ic_t &a, const ic_t &b) { return a.Or(b); }, c_or},
      {"Xor", [](const ic_t &a, const ic_t &b) { return a.Xor(b); }, c_xor},
      {"Shl", [](const ic_t &a, const ic_t &b) { return a.Shl(b); }, c_shl},
      {"LShr", [](const ic_t &a, const ic_t &b) { return a.LShr(b); }, c_lshr},
      {"AShr", [](const ic_t &a, const ic_t &b) { return a.AShr(b); }, c_ashr},
  };
  std::function<bool(const ic_t &)> trivial = [](const ic_t &x) {
    ic_t y(x);
    return y.is_bottom() || y.is_top();
  };
  run_binops<ic_t>("interval_congruence", vals, ops, contains, trivial, caseno,
                   nontriv);
  // join / meet only (no inclusion operator in this class)
  std::vector<ll> U = universe();
  for (size_t i = 0; i < vals.size(); i++)
    for (size_t j = 0; j < vals.size(); j++) {
      uint64_t idx = caseno++;
      std::string spec = "interval_congruence:lattice:" + std::to_string(i) +
                         ":" + std::to_string(j);
      if (!vp::args().replay.empty()) {
        if (vp::args().replay != spec) continue;
      } else if (!vp::mine(idx))
        continue;
      vp::set_case(spec);
      ic_t jn = vals[i].v | vals[j].v, mt = vals[i].v & vals[j].v;
      vp::stat("evaluations", 2);
      for (ll p : U) {
        bool ina = ic_contains(vals[i].v, p), inb = ic_contains(vals[j].v, p);
        if ((ina || inb) && !ic_contains(jn, p))
          vp::viol("interval_congruence.join:unsound", spec,
                   vals[i].name + " , " + vals[j].name + " = " + show(jn) +
                       " misses " + std::to_string(p));
        if (ina && inb && !ic_contains(mt, p))
          vp::viol("interval_congruence.meet:unsound", spec,
                   vals[i].name + " , " + vals[j].name + " = " + show(mt) +
                       " misses " + std::to_string(p));
      }
    }
}

// ================================ sign ======================================
typedef sign<z_number> sg_t;
static bool sg_contains(const sg_t &s, ll p) {
  if (s.is_bottom()) return false;
  if (s.is_top()) return true;
  if (s.equal_zero()) return p == 0;
  if (s.less_than_zero()) return p < 0;
  if (s.greater_than_zero()) return p > 0;
  if (s.less_or_equal_than_zero()) return p <= 0;
  if (s.greater_or_equal_than_zero()) return p >= 0;
  if (s.not_equal_zero()) return p != 0;
  return false;
}
static void do_sign(uint64_t &caseno, std::set<uint64_t> &nontriv) {
  std::vector<Val<sg_t>> vals = {
      {sg_t::bottom(), "_|_", {}},
      {sg_t::top(), "top", {}},
      {sg_t::mk_equal_zero(), "=0", {}},
      {sg_t::mk_less_than_zero(), "<0", {}},
      {sg_t::mk_greater_than_zero(), ">0", {}},
      {sg_t::mk_less_or_equal_than_zero(), "<=0", {}},
      {sg_t::mk_greater_or_equal_than_zero(), ">=0", {}},
      {sg_t::mk_not_equal_zero(), "!=0", {}},
  };
  std::function<bool(const sg_t &, ll)> contains = sg_contains;
  fill_members(vals, contains);
  std::vector<BinOp<sg_t>> ops = {
      {"+", [](const sg_t &a, const sg_t &b) { return a + b; }, c_add},
      {"-", [](const sg_t &a, const sg_t &b) { return a - b; }, c_sub},
      {"*", [](const sg_t &a, const sg_t &b) { return a * b; }, c_mul},
      {"/", [](const sg_t &a, const sg_t &b) { return a / b; }, c_sdiv},
      {"SRem", [](const sg_t &a, const sg_t &b) { return a.SRem(b); }, c_srem},
      {"UDiv", [](const sg_t &a, const sg_t &b) { return a.UDiv(b); }, c_udiv},
      {"URem", [](const sg_t &a, const sg_t &b) { return a.URem(b); }, c_urem},
      {"And", [](const sg_t &a, const sg_t &b) { return a.And(b); }, c_and},
      {"Or", [](const sg_t &a, const sg_t &b) { return a.Or(b); }, c_or},
      {"Xor", [](const sg_t &a, const sg_t &b) { return a.Xor(b); }, c_xor},
      {"Shl", [](const sg_t &a, const sg_t &b) { return a.Shl(b); }, c_shl},
      {"LShr", [](const sg_t &a, const sg_t &b) { return a.LShr(b); }, c_lshr},
      {"AShr", [](const sg_t &a, const sg_t &b) { return a.AShr(b); }, c_ashr},
      {"from_interval(to_interval)",
       [](const sg_t &a, const sg_t &) {
         return a.from_interval(a.to_interval());
       },
       [](ll a, ll) -> oll { return a; }},
  };
  std::function<bool(const sg_t &)> trivial = [](const sg_t &x) {
    return x.is_bottom() || x.is_top();
  };
  run_binops<sg_t>("sign", vals, ops, contains, trivial, caseno, nontriv);
  Lattice<sg_t> L;
  L.join = [](const sg_t &a, const sg_t &b) { return a | b; };
  L.meet = [](const sg_t &a, const sg_t &b) { return a & b; };
  L.widen = [](const sg_t &a, const sg_t &b) { return a | b; };
  L.leq = [](const sg_t &a, const sg_t &b) { return a <= b; };
  L.is_bottom = [](const sg_t &a) { return a.is_bottom(); };
  L.is_top = [](const sg_t &a) { return a.is_top(); };
  run_lattice<sg_t>("sign", vals, L, contains, caseno, nontriv);
  // to_interval contains every member
  for (auto &v : vals) {
    zi_t i = v.v.to_interval();
    vp::stat("evaluations");
    for (ll p : v.members)
      if (!zi_contains(i, p))
        vp::viol("sign.to_interval:unsound", "sign:to_interval",
                 v.name + " -> " + show(i) + " misses " + std::to_string(p));
  }
  // from_interval over the interval alphabet
  auto ivals = zi_values();
  std::function<bool(const zi_t &, ll)> zc = zi_contains;
  fill_members(ivals, zc);
  for (auto &iv : ivals) {
    sg_t s = vals[1].v.from_interval(iv.v);
    vp::stat("evaluations");
    for (ll p : iv.members)
      if (!sg_contains(s, p))
        vp::viol("sign.from_interval:unsound", "sign:from_interval",
                 iv.name + " -> " + show(s) + " misses " + std::to_string(p));
  }
}

// ============================== constant ====================================
typedef constant<z_number> ct_t;
static bool ct_contains(const ct_t &c, ll p) {
  if (c.is_bottom()) return false;
  if (c.is_top()) return true;
  return c.get_constant() == z_number((long)p);
}
static void do_constant(uint64_t &caseno, std::set<uint64_t> &nontriv) {
  std::vector<Val<ct_t>> vals;
  vals.push_back({ct_t::bottom(), "_|_", {}});
  vals.push_back({ct_t::top(), "top", {}});
  for (int k = -R - 2; k <= R + 2; k++)
    vals.push_back({ct_t(z_number(k)), std::to_string(k), {}});
  std::function<bool(const ct_t &, ll)> contains = ct_contains;
  fill_members(vals, contains);
  std::vector<BinOp<ct_t>> ops = {
      {"Add", [](const ct_t &a, const ct_t &b) { return a.Add(b); }, c_add},
      {"Sub", [](const ct_t &a, const ct_t &b) { return a.Sub(b); }, c_sub},
      {"Mul", [](const ct_t &a, const ct_t &b) { return a.Mul(b); }, c_mul},
      {"SDiv", [](const ct_t &a, const ct_t &b) { return a.SDiv(b); }, c_sdiv},
      {"SRem", [](const ct_t &a, const ct_t &b) { return a.SRem(b); }, c_srem},
      {"UDiv", [](const ct_t &a, const ct_t &b) { return a.UDiv(b); }, c_udiv},
      {"URem", [](const ct_t &a, const ct_t &b) { return a.URem(b); }, c_urem},
      {"BitwiseAnd", [](const ct_t &a, const ct_t &b) { return a.BitwiseAnd(b); },
       c_and},
      {"BitwiseOr", [](const ct_t &a, const ct_t &b) { return a.BitwiseOr(b); },
       c_or},
      {"BitwiseXor", [](const ct_t &a, const ct_t &b) { return a.BitwiseXor(b); },
       c_xor},
      {"BitwiseShl", [](const ct_t &a, const ct_t &b) { return a.BitwiseShl(b); },
       c_shl},
      {"BitwiseLShr",
       [](const ct_t &a, const ct_t &b) { return a.BitwiseLShr(b); }, c_lshr},
      {"BitwiseAShr",
       [](const ct_t &a, const ct_t &b) { return a.BitwiseAShr(b); }, c_ashr},
  };
  std::function<bool(const ct_t &)> trivial = [](const ct_t &x) {
    return x.is_bottom() || x.is_top();
  };
  run_binops<ct_t>("constant", vals, ops, contains, trivial, caseno, nontriv);
  Lattice<ct_t> L;
  L.join = [](const ct_t &a, const ct_t &b) { return a | b; };
  L.meet = [](const ct_t &a, const ct_t &b) { return a & b; };
  L.widen = [](const ct_t &a, const ct_t &b) { return a || b; };
  L.narrow = [](const ct_t &a, const ct_t &b) { return a && b; };
  L.leq = [](const ct_t &a, const ct_t &b) { return a <= b; };
  L.is_bottom = [](const ct_t &a) { return a.is_bottom(); };
  L.is_top = [](const ct_t &a) { return a.is_top(); };
  run_lattice<ct_t>("constant", vals, L, contains, caseno, nontriv);
}

// ============================ boolean_value =================================
static bool bv_contains(const boolean_value &b, ll p) {
  if (p != 0 && p != 1) return false;
  if (b.is_bottom()) return false;
  if (b.is_top()) return true;
  return p == 1 ? b.is_true() : b.is_false();
}
static void do_boolean(uint64_t &caseno, std::set<uint64_t> &nontriv) {
  typedef boolean_value bv_t;
  std::vector<Val<bv_t>> vals = {{bv_t::bottom(), "_|_", {}},
                                 {bv_t::top(), "top", {}},
                                 {bv_t::get_true(), "true", {}},
                                 {bv_t::get_false(), "false", {}}};
  std::function<bool(const bv_t &, ll)> contains = bv_contains;
  fill_members(vals, contains);
  std::vector<BinOp<bv_t>> ops = {
      {"And", [](const bv_t &a, const bv_t &b) { return a.And(b); },
       [](ll a, ll b) -> oll { return a & b; }},
      {"Or", [](const bv_t &a, const bv_t &b) { return a.Or(b); },
       [](ll a, ll b) -> oll { return a | b; }},
      {"Xor", [](const bv_t &a, const bv_t &b) { return a.Xor(b); },
       [](ll a, ll b) -> oll { return a ^ b; }},
      {"Negate", [](const bv_t &a, const bv_t &) { return a.Negate(); },
       [](ll a, ll) -> oll { return 1 - a; }},
  };
  std::function<bool(const bv_t &)> trivial = [](const bv_t &x) {
    return x.is_bottom();
  };
  run_binops<bv_t>("boolean_value", vals, ops, contains, trivial, caseno,
                   nontriv);
  Lattice<bv_t> L;
  L.join = [](const bv_t &a, const bv_t &b) { return a | b; };
  L.meet = [](const bv_t &a, const bv_t &b) { return a & b; };
  L.widen = [](const bv_t &a, const bv_t &b) { return a || b; };
  L.narrow = [](const bv_t &a, const bv_t &b) { return a && b; };
  L.leq = [](const bv_t &a, const bv_t &b) { return a <= b; };
  L.is_bottom = [](const bv_t &a) { return a.is_bottom(); };
  L.is_top = [](const bv_t &a) { return a.is_top(); };
  run_lattice<bv_t>("boolean_value", vals, L, contains, caseno, nontriv);
}

// ============================= small_range ==================================
// Concrete meaning: a set of variables (subset of {1,2,3}) encoded as a bit
// mask 0..7 ("how many variables satisfy a property").
struct IdxVar {
  ikos::index_t i;
  ikos::index_t index() const { return i; }
};
static void do_small_range(uint64_t &caseno, std::set<uint64_t> &nontriv) {
  typedef small_range sr_t;
  struct SV {
    sr_t v;
    std::string name;
    std::set<int> g; // masks
  };
  std::vector<SV> vals;
  auto all = [](std::function<bool(int)> f) {
    std::set<int> s;
    for (int m = 0; m < 8; m++)
      if (f(m)) s.insert(m);
    return s;
  };
  vals.push_back({sr_t::bottom(), "_|_", {}});
  vals.push_back({sr_t::top(), "[0,+oo]", all([](int) { return true; })});
  vals.push_back({sr_t::zero(), "0", all([](int m) { return m == 0; })});
  vals.push_back({sr_t::oneOrMore(), "[1,+oo]", all([](int m) { return m != 0; })});
  for (int v = 1; v <= 3; v++) {
    sr_t one = sr_t::zero();
    one.increment(IdxVar{(ikos::index_t)v});
    vals.push_back({one, "1(v" + std::to_string(v) + ")",
                    all([v](int m) { return m == (1 << (v - 1)); })});
    sr_t z1 = one | sr_t::zero();
    vals.push_back({z1, "[0,1](v" + std::to_string(v) + ")",
                    all([v](int m) { return m == 0 || m == (1 << (v - 1)); })});
  }
  // the printed form tells which abstract element we have; γ is defined from it
  auto gamma = [&](const sr_t &x) -> std::set<int> {
    std::string s = show(x);
    for (auto &v : vals)
      if (show(v.v) == s) return v.g;
    vp::viol("small_range.unknown-element", "small_range:gamma", s);
    return all([](int) { return true; });
  };
  for (size_t i = 0; i < vals.size(); i++)
    for (size_t j = 0; j < vals.size(); j++) {
      uint64_t idx = caseno++;
      std::string spec =
          "small_range:lattice:" + std::to_string(i) + ":" + std::to_string(j);
      if (!vp::args().replay.empty()) {
        if (vp::args().replay != spec) continue;
      } else if (!vp::mine(idx))
        continue;
      vp::set_case(spec);
      const sr_t &a = vals[i].v, &b = vals[j].v;
      std::string ab = vals[i].name + " , " + vals[j].name;
      try {
      std::set<int> gj = gamma(a | b), gm = gamma(a & b), gw = gamma(a || b);
      bool le = a <= b;
      vp::stat("evaluations", 4);
      vp::stat("ops.small_range", 4);
      if (i > 1 && j > 1) nontriv.insert(vp::fnv(spec));
      for (int m = 0; m < 8; m++) {
        bool ina = vals[i].g.count(m), inb = vals[j].g.count(m);
        if ((ina || inb) && !gj.count(m))
          vp::viol("small_range.join:unsound", spec, ab + " = " + show(a | b));
        if ((ina || inb) && !gw.count(m))
          vp::viol("small_range.widening:unsound", spec, ab + " = " + show(a || b));
        if (ina && inb && !gm.count(m))
          vp::viol("small_range.meet:unsound", spec, ab + " = " + show(a & b));
        if (le && ina && !inb)
          vp::viol("small_range.leq:unsound", spec, ab);
      }
      if (i == j && !le) vp::viol("small_range.leq:irreflexive", spec, ab);
      if (a.is_bottom() && !le) vp::viol("small_range.leq:bottom-left", spec, ab);
      if (b.is_top() && !le) vp::viol("small_range.leq:top-right", spec, ab);
      } catch (crab::verif::crab_error &e) {
        vp::viol("small_range.lattice:abort", spec, ab + " aborts: " + e.what());
      }
    }
  for (size_t i = 0; i < vals.size(); i++)
    for (int v = 1; v <= 3; v++) {
      sr_t r = vals[i].v;
      r.increment(IdxVar{(ikos::index_t)v});
      std::set<int> g = gamma(r);
      vp::stat("evaluations");
      for (int m : vals[i].g)
        if (!g.count(m | (1 << (v - 1))))
          vp::viol("small_range.increment:unsound",
                   "small_range:increment:" + std::to_string(i),
                   vals[i].name + " increment v" + std::to_string(v) + " = " +
                       show(r));
    }
}

// ============================= dis_interval =================================
typedef dis_interval<z_number> di_t;
static bool di_contains(const di_t &d, ll p) {
  if (d.is_bottom()) return false;
  if (d.is_top()) return true;
  for (auto it = d.begin(); it != d.end(); ++it)
    if (zi_contains(*it, p)) return true;
  return false;
}
static void do_dis_interval(uint64_t &caseno, std::set<uint64_t> &nontriv) {
  // all unions of <= 2 (quick) / 3 (thorough) intervals over [-r,r] U {+-oo}
  int r = vp::args().thorough() ? 3 : 2;
  std::vector<std::pair<zi_t, std::string>> base;
  for (int l = -r; l <= r; l++)
    for (int u = l; u <= r; u++)
      base.push_back({zi_t(zb_t(z_number(l)), zb_t(z_number(u))),
                      "[" + std::to_string(l) + "," + std::to_string(u) + "]"});
  for (int l = -r; l <= r; l++) {
    base.push_back({zi_t(zb_t(z_number(l)), zb_t::plus_infinity()),
                    "[" + std::to_string(l) + ",+oo]"});
    base.push_back({zi_t(zb_t::minus_infinity(), zb_t(z_number(l))),
                    "[-oo," + std::to_string(l) + "]"});
  }
  std::vector<Val<di_t>> vals;
  std::set<std::string> seen;
  auto add = [&](const di_t &d) {
    std::string s = show(d);
    if (seen.insert(s).second) vals.push_back({d, s, {}});
  };
  add(di_t::bottom());
  add(di_t::top());
  for (auto &a : base) add(di_t(a.first));
  for (auto &a : base)
    for (auto &b : base) add(di_t(a.first) | di_t(b.first));
  if (vp::args().thorough()) {
    std::vector<Val<di_t>> two = vals;
    for (auto &a : two)
      for (auto &b : base) add(a.v | di_t(b.first));
  }
  vp::statmax("dis_interval_alphabet", vals.size());
  std::function<bool(const di_t &, ll)> contains = di_contains;
  int saveR = R;
  R = r; // universe
  fill_members(vals, contains);
  std::vector<BinOp<di_t>> ops = {
      {"+", [](const di_t &a, const di_t &b) { return a + b; }, c_add},
      {"-", [](const di_t &a, const di_t &b) { return a - b; }, c_sub},
      {"*", [](const di_t &a, const di_t &b) { return a * b; }, c_mul},
      {"/", [](const di_t &a, const di_t &b) { return di_t(a) / b; }, c_sdiv},
      {"SRem", [](const di_t &a, const di_t &b) { return a.SRem(b); }, c_srem},
      {"UDiv", [](const di_t &a, const di_t &b) { return a.UDiv(b); }, c_udiv},
      {"URem", [](const di_t &a, const di_t &b) { return a.URem(b); }, c_urem},
      {"And", [](const di_t &a, const di_t &b) { return a.And(b); }, c_and},
      {"Or", [](const di_t &a, const di_t &b) { return a.Or(b); }, c_or},
      {"Xor", [](const di_t &a, const di_t &b) { return a.Xor(b); }, c_xor},
      {"Shl", [](const di_t &a, const di_t &b) { return a.Shl(b); }, c_shl},
      {"LShr", [](const di_t &a, const di_t &b) { return a.LShr(b); }, c_lshr},
      {"AShr", [](const di_t &a, const di_t &b) { return a.AShr(b); }, c_ashr},
      {"neg", [](const di_t &a, const di_t &) { return -a; },
       [](ll a, ll) -> oll { return -a; }},
      {"approx", [](const di_t &a, const di_t &) { return di_t(a.approx()); },
       [](ll a, ll) -> oll { return a; }},
      {"lower_half_line",
       [](const di_t &a, const di_t &) { return a.lower_half_line(); },
       [](ll a, ll) -> oll { return a - 3; }},
      {"upper_half_line",
       [](const di_t &a, const di_t &) { return a.upper_half_line(); },
       [](ll a, ll) -> oll { return a + 3; }},
      {"trim",
       [](const di_t &a, const di_t &b) {
         return linear_interval_solver_impl::trim_interval(a, b);
       },
       [](ll p, ll q) -> oll { return p != q ? oll(p) : boost::none; }},
  };
  std::function<bool(const di_t &)> trivial = [](const di_t &x) {
    return x.is_bottom() || x.is_top();
  };
  run_binops<di_t>("dis_interval", vals, ops, contains, trivial, caseno, nontriv);
  Lattice<di_t> L;
  L.join = [](const di_t &a, const di_t &b) { return a | b; };
  L.meet = [](const di_t &a, const di_t &b) { return a & b; };
  L.widen = [](const di_t &a, const di_t &b) { return a || b; };
  L.narrow = [](const di_t &a, const di_t &b) { return a && b; };
  L.leq = [](const di_t &a, const di_t &b) { return a <= b; };
  L.is_bottom = [](const di_t &a) { return a.is_bottom(); };
  L.is_top = [](const di_t &a) { return a.is_top(); };
  run_lattice<di_t>("dis_interval", vals, L, contains, caseno, nontriv);
  R = saveR;
}

int main(int argc, char **argv) {
  vp::parse_args(argc, argv);
  vp::install_crash_handler();
  crab::CrabEnableWarningMsg(false);
  if (vp::args().thorough()) R = 8;
  uint64_t caseno = 0;
  std::set<uint64_t> nontriv;
  std::string only = vp::args().opt.count("only") ? vp::args().opt["only"] : "";
  if (!vp::args().replay.empty()) only = vp::split(vp::args().replay, ':')[0];
  auto want = [&](const char *n) { return only.empty() || only == n; };
  if (want("z_interval") || want("z_bound")) do_z_interval(caseno, nontriv);
  if (want("q_interval")) do_q_interval(caseno, nontriv);
  if (want("congruence")) do_congruence(caseno, nontriv);
  if (want("interval_congruence")) do_interval_congruence(caseno, nontriv);
  if (want("sign")) do_sign(caseno, nontriv);
  if (want("constant")) do_constant(caseno, nontriv);
  if (want("boolean_value")) do_boolean(caseno, nontriv);
  if (want("small_range")) do_small_range(caseno, nontriv);
  if (want("dis_interval")) do_dis_interval(caseno, nontriv);
  vp::stat("distinct_nontrivial", nontriv.size());
  vp::stat("cases", 0);
  vp::finish();
  return 0;
}
