# Builds the exploration binaries from /repo's *current working tree*.
# Everything is dependency-tracked (-MMD), so any edit under $(REPO) rebuilds
# exactly the affected objects. /repo/_build is never used.
REPO ?= /repo
BUILD ?= /verif/build
H := /verif/harness
CXX := g++
CCACHE := $(shell command -v ccache 2>/dev/null)
OPT ?= -O1
CXXFLAGS := -std=gnu++14 $(OPT) -DNDEBUG -DCRAB_VERIF -fno-access-control -w \
  -I$(BUILD)/include -I$(REPO)/include -I$(H)
LDLIBS := -lgmpxx -lgmp

LIBSRC := $(wildcard $(REPO)/lib/*.cpp)
LIBOBJ := $(patsubst $(REPO)/lib/%.cpp,$(BUILD)/lib/%.o,$(LIBSRC))


-include $(H)/doms.mk
-include $(H)/bins.mk

.PHONY: domobjs
domobjs: $(addprefix $(BUILD)/obj/,$(addsuffix .o,$(DOM_OBJS))) $(BUILD)/obj/common/domreg.o

.PHONY: all clean
all: $(addprefix $(BUILD)/bin/,$(BINS))

$(BUILD)/include/crab/config.h: $(REPO)/include/crab/config.h.cmake
	@mkdir -p $(dir $@)
	@sed -e 's|#cmakedefine \([A-Z_]*\).*|/* #undef \1 */|' $< > $@.tmp
	@mv $@.tmp $@

$(BUILD)/lib/%.o: $(REPO)/lib/%.cpp $(BUILD)/include/crab/config.h
	@mkdir -p $(dir $@)
	$(CCACHE) $(CXX) $(CXXFLAGS) -MMD -MP -c $< -o $@

$(BUILD)/obj/%.o: $(H)/%.cpp $(BUILD)/include/crab/config.h
	@mkdir -p $(dir $@)
	$(CCACHE) $(CXX) $(CXXFLAGS) -MMD -MP -c $< -o $@

$(BUILD)/libcrab.a: $(LIBOBJ)
	@rm -f $@
	ar rcs $@ $^

define BIN_RULE
$(BUILD)/bin/$(1): $$(addprefix $(BUILD)/obj/,$$(addsuffix .o,$$($(1)_OBJS))) $(BUILD)/libcrab.a
	@mkdir -p $$(dir $$@)
	$(CXX) -o $$@ $$(addprefix $(BUILD)/obj/,$$(addsuffix .o,$$($(1)_OBJS))) $(BUILD)/libcrab.a $(LDLIBS)
endef
$(foreach b,$(BINS),$(eval $(call BIN_RULE,$(b))))

clean:
	rm -rf $(BUILD)

-include $(shell find $(BUILD) -name "*.d" 2>/dev/null)
