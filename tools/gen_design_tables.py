#!/usr/bin/env python3
"""Regenerates the AUTO sections of DESIGN.md (fix list from known_findings.json, seed table from seeded/*/meta.json)."""
import json, glob, os, re, subprocess
ROOT = '/verif'
d = json.load(open(os.path.join(ROOT, 'known_findings.json')))
byprop = {}
for f in d['fixed']:
    byprop.setdefault(f['property'] if isinstance(f['property'], str) else ','.join(f['property']), []).append(f)
lines = []
total = 0
for prop in sorted(byprop):
    lines.append('**%s**' % prop)
    lines.append('')
    for f in byprop[prop]:
        total += 1
        lines.append('* `%s` %s' % (f['commit'], f['what']))
    lines.append('')
fixes = '%d repaired defects, grouped by the property whose check found them (commit hashes are those of `/repo`):\n\n' % total + '\n'.join(lines)

rows = ['| seeded change | property | what it breaks | detected by |', '|---|---|---|---|']
for m in sorted(glob.glob(os.path.join(ROOT, 'seeded', '*', 'meta.json'))):
    j = json.load(open(m))
    name = os.path.basename(os.path.dirname(m))
    def cell(s):
        return str(s).replace('|', '\\|').replace('\n', ' ')
    rows.append('| `%s` | %s | %s | %s |' % (name, j.get('property', '?'), cell(j.get('change', ''))[:420], cell(j.get('detected_by', ''))[:420]))
seeds = '\n'.join(rows)

p = os.path.join(ROOT, 'DESIGN.md')
s = open(p).read()
def sub(tag, body, s):
    return re.sub(r'(<!-- BEGIN AUTO:%s -->).*?(<!-- END AUTO:%s -->)' % (tag, tag), lambda m: m.group(1) + '\n' + body + '\n' + m.group(2), s, flags=re.S)
s = sub('FIXES', fixes, s)
s = sub('SEEDS', seeds, s)
open(p, 'w').write(s)
print('DESIGN.md: %d fixes, %d seeds' % (total, len(rows) - 2))
