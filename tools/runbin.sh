#!/bin/bash
# tools/runbin.sh <bin> <args...>: runs all 16 slices in parallel, prints distinct violation cores and summed stats
bin=$1; shift
rm -f /tmp/rb_*.out
for i in $(seq 0 15); do ./build/bin/$bin "$@" --slice $i/16 > /tmp/rb_$i.out 2>/tmp/rb_$i.err & done; wait
cat /tmp/rb_*.out | grep "^VIOL" | cut -f2,4 | awk -F'\t' '!s[$1]++' | cut -c1-${W:-420}
cat /tmp/rb_*.out | grep "^STAT" | awk -F'\t' '{a[$2]+=$3} END {for (k in a) printf "%s=%d ", k, a[k]; print ""}'
grep -L "^DONE" /tmp/rb_*.out | head -3
