#!/usr/bin/env python3
"""Regenerates /verif/MANIFEST.json from harness/registry.py and tools/not_applicable.json."""
import json, os, sys
ROOT = os.path.dirname(os.path.dirname(os.path.abspath(__file__)))
sys.path.insert(0, os.path.join(ROOT, "harness"))
from registry import CHECKS
props = [json.loads(l) for l in open(os.path.join(ROOT, "properties.jsonl"))]
na_path = os.path.join(ROOT, "tools", "not_applicable.json")
na = json.load(open(na_path)) if os.path.exists(na_path) else {}
hooks = subprocess = None
import subprocess
def hook_commits():
    try:
        out = subprocess.check_output(["git", "-C", "/repo", "log", "--format=%h %s"], text=True)
        return [l.split()[0] for l in out.splitlines() if l.split(" ", 1)[1].startswith("verif hook")]
    except Exception:
        return []
bins = sorted({j["bin"] for c in CHECKS.values() for j in c["jobs"]})
m = {
    "version": 1,
    "setup_cmd": "make -s -j16 -C /verif all",
    "hooks": {
        "guard": "CRAB_VERIF",
        "enable": "the /verif Makefile compiles /repo/lib/*.cpp and the harness against /repo/include with -DCRAB_VERIF (CRAB_ERROR throws crab::verif::crab_error; CRAB_VERIF_TICK() calls an installable hook)",
        "baseline_off_cmd": "cmake --build /repo/_build -j16 -- -k 0; ctest --test-dir /repo/_build -j8 --timeout 900",
        "source_commits": hook_commits(),
        "add_only": True,
    },
    "engines": [],
    "checks": [],
    "notes": "All checks are bounded exhaustive explorations of the real crab code (see DESIGN.md). ./check <id> --tier quick|thorough; replays are JSON files accepted by ./check <id> --replay <file>.",
    "not_applicable": [],
}
for p in props:
    pid = p["id"]
    if pid in CHECKS:
        c = CHECKS[pid]
        m["checks"].append({
            "property_id": pid,
            "quick_cmd": "./check %s --tier quick" % pid,
            "thorough_cmd": "./check %s --tier thorough" % pid,
            "evidence_file": "/verif/evidence/%s.json" % pid,
            "replay_cmd_template": "./check %s --replay {path}" % pid,
            "engine": ",".join(sorted({j["bin"] for j in c["jobs"]})),
            "level_claimed": {"category": c["level"], "text": c["level_text"], "design_ref": c.get("design_ref", "DESIGN.md")},
            "level_note": c["level_note"],
            "technique": c["technique"],
        })
    else:
        m["not_applicable"].append({"property_id": pid, "reason": na.get(pid, "no check built yet (work in progress); not claimed")})
for b in bins:
    m["engines"].append({"name": b, "path": "/verif/harness/%s.cpp" % b,
                         "serves_properties": sorted(k for k, c in CHECKS.items() if any(j["bin"] == b for j in c["jobs"])),
                         "kind_free_text": "bounded exhaustive explorer over the real implementation"})
json.dump(m, open(os.path.join(ROOT, "MANIFEST.json"), "w"), indent=1)
print("MANIFEST.json: %d checks, %d not applicable" % (len(m["checks"]), len(m["not_applicable"])))
