#!/bin/bash
# tools/try_seed.sh <patch> <prop> [tier]: applies the patch to /repo, runs the check, reverts. Prints the exit code.
p=$1; prop=$2; tier=${3:-quick}
git -C /repo apply $p || exit 2
( cd /verif && ./check $prop --tier $tier ) 2>&1 | tail -${TAIL:-8}
rc=${PIPESTATUS[0]}
git -C /repo checkout -- .
echo "try_seed exit=$rc"
