#!/usr/bin/env python3
"""tools/add_fixed.py <property> <commit> <what failed>  -- appends a fixed entry to known_findings.json"""
import json, sys
p = '/verif/known_findings.json'
d = json.load(open(p))
prop, commit, what = sys.argv[1], sys.argv[2], ' '.join(sys.argv[3:])
d['fixed'].append({"property": prop, "commit": commit, "what": what,
                   "entry": "fixed: property=%s %s %s" % (prop, commit, what)})
json.dump(d, open(p, 'w'), indent=1)
