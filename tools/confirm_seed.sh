#!/bin/bash
# tools/confirm_seed.sh <id> [jobs]: confirms a seeded change delivered in /tmp/seed/<id>/seeded_out:
# with the patch crab builds, the pinned suite passes (120) and the demo fails; without it the demo passes.
id=$1; J=${2:-8}; W=/tmp/seed/$id; O=$W/seeded_out; L=$O/confirm.log
cd $W || exit 2
git checkout -q -- . ; git apply $O/patch.diff || { echo "patch does not apply" | tee $L; exit 2; }
export CCACHE_BASEDIR=$W CCACHE_NOHASHDIR=1
cmake -G Ninja -B _build -DCMAKE_BUILD_TYPE=RelWithDebInfo -DCRAB_ENABLE_TESTS=ON -DCMAKE_CXX_COMPILER_LAUNCHER=ccache > /dev/null
cmake --build _build -j $J -- -k 0 > _build/build.log 2>&1
ctest --test-dir _build -j $J --timeout 900 > _build/ctest.log 2>&1
passed=$(grep -c "Passed" _build/ctest.log)
{
echo "with patch: tests passed=$passed (expected 120); failed list:"; grep -A3 "tests FAILED" _build/ctest.log
g++ -std=c++11 -O1 -w -I$W/include -I$W/_build/include -I$W/tests $O/demo.cc $W/_build/lib/libCrab.a -lgmpxx -lgmp -o _build/demo_with 2>&1 | tail -3
./_build/demo_with > _build/demo_with.out 2>&1; echo "demo with patch: exit $? : $(tail -1 _build/demo_with.out)"
git checkout -q -- .
cmake --build _build -j $J --target Crab > /dev/null 2>&1
g++ -std=c++11 -O1 -w -I$W/include -I$W/_build/include -I$W/tests $O/demo.cc $W/_build/lib/libCrab.a -lgmpxx -lgmp -o _build/demo_without 2>&1 | tail -3
./_build/demo_without > _build/demo_without.out 2>&1; echo "demo without patch: exit $? : $(tail -1 _build/demo_without.out)"
} | tee $L
rm -rf _build
