#!/bin/bash
# runs every thorough tier sequentially; logs under /tmp/thorough (not needed by any registered command)
mkdir -p /tmp/thorough
for id in "$@"; do
  ( cd /verif && ./check $id --tier thorough > /tmp/thorough/$id.log 2>&1; echo "exit=$?" >> /tmp/thorough/$id.log )
done
echo ALLDONE > /tmp/thorough/ALLDONE
